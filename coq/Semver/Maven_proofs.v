(* Proofs about the Maven comparator (Maven.v) on the domain of MavenDomain.v: it never
   panics there and is the order of an explicit key, hence a total preorder (C01). *)
From Coq Require Import Lia.
From DepsDev Require Import Lib.Base Lib.Order Lib.PadLex Semver.Version Semver.Maven Semver.MavenParse
  Semver.MavenDomain Semver.Compare Semver.Generic_proofs Gen.SemverTables.
Local Open Scope Z_scope.

(* ------------------------------------------------------------------ basics *)
Lemma bytes_eqb_eq a : forall b, bytes_eqb a b = true -> a = b.
Proof.
  induction a as [|x a IH]; intros [|y b]; simpl; intros H; try discriminate; auto.
  apply andb_true_iff in H. destruct H as [H1 H2]. apply N.eqb_eq in H1. subst. f_equal. auto.
Qed.
Lemma bytes_eqb_refl a : bytes_eqb a a = true.
Proof. induction a; simpl; auto. rewrite N.eqb_refl. auto. Qed.
Lemma bytes_eqb_neq a b : bytes_eqb a b = false -> a <> b.
Proof. intros H E. subst. rewrite bytes_eqb_refl in H. discriminate. Qed.

Lemma bytes_compare_eq a : forall b, bytes_compare a b = 0 -> a = b.
Proof.
  induction a as [|x a IH]; intros [|y b]; simpl; intros H; try discriminate; auto.
  destruct (N.compare_spec x y); try discriminate. subst. f_equal. auto.
Qed.

Lemma mvn_elem_eqb_eq a b : mvn_elem_eqb a b = true -> a = b.
Proof.
  unfold mvn_elem_eqb. intros H. apply andb_true_iff in H. destruct H as [H H3].
  apply andb_true_iff in H. destruct H as [H1 H2].
  apply N.eqb_eq in H1. apply bytes_eqb_eq in H2. apply Z.eqb_eq in H3.
  destruct a, b; simpl in *; subst; reflexivity.
Qed.
Lemma mvn_elem_eqb_refl a : mvn_elem_eqb a a = true.
Proof. unfold mvn_elem_eqb. rewrite N.eqb_refl, bytes_eqb_refl, Z.eqb_refl. reflexivity. Qed.

Lemma cmpZ_antisym a b : - cmpZ b a = cmpZ a b.
Proof. unfold cmpZ. rewrite (Z.compare_antisym a b). destruct (a ?= b); reflexivity. Qed.

Lemma cmpZ_gt a b : b < a -> cmpZ a b = 1.
Proof. intros H. unfold cmpZ. destruct (Z.compare_spec a b); lia. Qed.
Lemma cmpZ_lt a b : a < b -> cmpZ a b = -1.
Proof. intros H. unfold cmpZ. destruct (Z.compare_spec a b); lia. Qed.
Lemma cmpZ_refl a : cmpZ a a = 0.
Proof. unfold cmpZ. rewrite Z.compare_refl. reflexivity. Qed.
Lemma cmpZ_eq0 a b : cmpZ a b = 0 -> a = b.
Proof. apply cmpZ_eq. Qed.

(* ------------------------------------------------------------------ one round of the loop *)
Definition cat_of (e : mvn_elem) : Z := maven_category (me_str e).
Definition qorder (e : mvn_elem) : Z := qualifier_order (me_str e).

(* the body of the loop of mavenExtension.compare for given elements and categories *)
Definition mstep (a b : mvn_elem) (ac bc : Z) : step_res :=
  if mvn_elem_eqb a b then Continue
  else
    let a_unknown := (ac =? cat_qualifier) && (maven_empty_qualifier <? qualifier_order (me_str a)) in
    if a_unknown then
      match maven_unknown_qualifier_compare a b (qualifier_order (me_str a)) bc with
      | Some r => Return r | None => PanicStep end
    else
      let b_unknown := (bc =? cat_qualifier) && (maven_empty_qualifier <? qualifier_order (me_str b)) in
      if b_unknown then
        match maven_unknown_qualifier_compare b a (qualifier_order (me_str b)) ac with
        | Some r => Return (- r) | None => PanicStep end
      else
        let ac := if ac =? cat_eof then cat_qualifier else ac in
        let bc := if bc =? cat_eof then cat_qualifier else bc in
        if bc <? ac then Return 1
        else if ac <? bc then Return (-1)
        else if ac =? cat_numeric then
          if negb (N.eqb (me_sep a) (me_sep b)) then Return (Z.of_N (me_sep a) - Z.of_N (me_sep b))
          else if maven_fix_numeric_continue && (sgnZ (me_int a) (me_int b) =? 0) then Continue
          else Return (sgnZ (me_int a) (me_int b))
        else
          if negb (N.eqb (me_sep a) (me_sep b)) then Return (Z.of_N (me_sep b) - Z.of_N (me_sep a))
          else let c := compare_maven_qualifier (me_str a) (me_str b) in
               if c =? 0 then Continue else Return c.

Lemma step_both a b : maven_step (Some a) (Some b) = mstep a b (cat_of a) (cat_of b).
Proof. reflexivity. Qed.
Lemma step_left a : maven_step (Some a) None = mstep a (maven_pad (me_sep a)) (cat_of a) cat_eof.
Proof. reflexivity. Qed.
Lemma step_right b : maven_step None (Some b) = mstep (maven_pad (me_sep b)) b cat_eof (cat_of b).
Proof. reflexivity. Qed.

Definition ret (r : Z) : step_res := if r =? 0 then Continue else Return r.

Lemma ret_nz r : r <> 0 -> ret r = Return r.
Proof. intros H. unfold ret. destruct (Z.eqb_spec r 0); congruence. Qed.
Lemma ret_z : ret 0 = Continue.
Proof. reflexivity. Qed.

Ltac fin t :=
  let Z0 := fresh "Z0" in
  destruct (Z.eqb_spec t 0) as [Z0|Z0]; cbv iota;
  [try reflexivity | try (rewrite (proj2 (Z.eqb_neq _ _) Z0)); try reflexivity].

Lemma empty_q : maven_empty_qualifier = -2.
Proof. reflexivity. Qed.
Lemma order_nil : qualifier_order [] = -2.
Proof. reflexivity. Qed.

Definition isN (e : mvn_elem) : Prop := cat_of e = cat_numeric.
Definition isQ (e : mvn_elem) : Prop := cat_of e = cat_qualifier.

Lemma isN_str_nonnil e : isN e -> me_str e <> [].
Proof. unfold isN, cat_of. intros H E. rewrite E in H. discriminate. Qed.

(* two numerals with the same separator: by value *)
Lemma step_NN a b ac bc : ac = cat_numeric -> bc = cat_numeric -> me_sep a = me_sep b ->
  mstep a b ac bc = ret (cmpZ (me_int a) (me_int b)).
Proof.
  intros -> -> S. unfold mstep, ret.
  destruct (mvn_elem_eqb a b) eqn:E.
  - apply mvn_elem_eqb_eq in E. subst. rewrite cmpZ_refl. reflexivity.
  - rewrite S, N.eqb_refl. unfold maven_fix_numeric_continue. change sgnZ with cmpZ. simpl.
    destruct (cmpZ (me_int a) (me_int b) =? 0); reflexivity.
Qed.

(* two numerals with different separators: '.' above '-' *)
Lemma step_NN_sep a b ac bc : ac = cat_numeric -> bc = cat_numeric -> me_sep a <> me_sep b ->
  mstep a b ac bc = Return (Z.of_N (me_sep a) - Z.of_N (me_sep b)).
Proof.
  intros -> -> S. unfold mstep.
  destruct (mvn_elem_eqb a b) eqn:E; [apply mvn_elem_eqb_eq in E; subst; congruence|].
  apply N.eqb_neq in S. rewrite S. reflexivity.
Qed.

(* a numeral against a qualifier, whatever the separators *)
Lemma step_NQ a b ac bc : ac = cat_numeric -> bc = cat_qualifier -> mvn_elem_eqb a b = false ->
  mstep a b ac bc = Return 1.
Proof.
  intros -> -> E. unfold mstep. rewrite E. simpl.
  destruct (maven_empty_qualifier <? qualifier_order (me_str b)); reflexivity.
Qed.
Lemma step_QN a b ac bc : ac = cat_qualifier -> bc = cat_numeric -> mvn_elem_eqb a b = false ->
  mstep a b ac bc = Return (-1).
Proof.
  intros -> -> E. unfold mstep. rewrite E. simpl.
  destruct (maven_empty_qualifier <? qualifier_order (me_str a)); reflexivity.
Qed.

(* a numeral against the end of the other list *)
Lemma step_Npad a b ac : ac = cat_numeric -> mvn_elem_eqb a b = false -> mstep a b ac cat_eof = Return 1.
Proof. intros -> E. unfold mstep. rewrite E. reflexivity. Qed.
Lemma step_padN a b bc : bc = cat_numeric -> mvn_elem_eqb a b = false -> mstep a b cat_eof bc = Return (-1).
Proof. intros -> E. unfold mstep. rewrite E. reflexivity. Qed.

Lemma diff_cat_neq a b : cat_of a <> cat_of b -> mvn_elem_eqb a b = false.
Proof.
  intros H. destruct (mvn_elem_eqb a b) eqn:E; auto. apply mvn_elem_eqb_eq in E. subst. congruence.
Qed.

(* ------------------------------------------------------------------ keys of tail elements *)
(* (class, order or separator, text, value): qualifiers are class 0 and ordered by the table,
   unknown ones (and sp) further by their text; numerals are class 1, '.' above '-', then by value *)
Definition tkey := (Z * Z * bytes * Z)%type.
Definition k_class (k : tkey) : Z := fst (fst (fst k)).
Definition k_ord (k : tkey) : Z := snd (fst (fst k)).
Definition k_str (k : tkey) : bytes := snd (fst k).
Definition k_int (k : tkey) : Z := snd k.

Definition kcmp : tkey -> tkey -> Z :=
  lex (fun a b => cmpZ (k_class a) (k_class b))
      (lex (fun a b => cmpZ (k_ord a) (k_ord b))
           (lex (fun a b => bytes_compare (k_str a) (k_str b)) (fun a b => cmpZ (k_int a) (k_int b)))).

Lemma kcmp_core : cmp_core (fun _ : tkey => True) kcmp.
Proof.
  unfold kcmp. repeat apply core_lex.
  - apply (core_pullback k_class (fun _ => True) (fun _ => True) cmpZ); auto. apply cmpZ_core.
  - apply (core_pullback k_ord (fun _ => True) (fun _ => True) cmpZ); auto. apply cmpZ_core.
  - apply (core_pullback k_str (fun _ => True) (fun _ => True) bytes_compare); auto. apply bytes_core.
  - apply (core_pullback k_int (fun _ => True) (fun _ => True) cmpZ); auto. apply cmpZ_core.
Qed.

Definition key_of (e : mvn_elem) : tkey :=
  if is_num_elem e then (1, Z.of_N (me_sep e), [], me_int e)
  else (0, qorder e, (if maven_empty_qualifier <? qorder e then me_str e else []), 0).
Definition key_pad : tkey := (0, maven_empty_qualifier, [], 0).

Definition td (e : mvn_elem) : Prop := tail_elem_ok e = true.

Lemma td_cases e : td e ->
  (me_sep e = 45%N /\ isQ e /\ me_int e = 0) \/
  (isN e /\ (me_sep e = 45%N \/ (me_sep e = 46%N /\ me_str e <> s_zero))).
Proof.
  unfold td, tail_elem_ok, is_qual_elem, is_num_elem, isQ, isN. fold (cat_of e). intros H.
  apply orb_true_iff in H. destruct H as [H|H]; [apply orb_true_iff in H; destruct H as [H|H]|].
  - left. apply andb_true_iff in H. destruct H as [H H3]. apply andb_true_iff in H. destruct H as [H1 H2].
    apply N.eqb_eq in H1. apply Z.eqb_eq in H2. apply Z.eqb_eq in H3. auto.
  - right. apply andb_true_iff in H. destruct H as [H1 H2]. apply N.eqb_eq in H1. apply Z.eqb_eq in H2. auto.
  - right. apply andb_true_iff in H. destruct H as [H H3]. apply andb_true_iff in H. destruct H as [H1 H2].
    apply N.eqb_eq in H1. apply Z.eqb_eq in H2. apply negb_true_iff in H3. apply bytes_eqb_neq in H3. auto.
Qed.

Lemma key_of_N e : isN e -> key_of e = (1, Z.of_N (me_sep e), [], me_int e).
Proof. unfold isN, key_of, is_num_elem. fold (cat_of e). intros ->. reflexivity. Qed.
Lemma key_of_Q e : isQ e ->
  key_of e = (0, qorder e, (if maven_empty_qualifier <? qorder e then me_str e else []), 0).
Proof. unfold isQ, key_of, is_num_elem. fold (cat_of e). intros ->. reflexivity. Qed.

Lemma kcmp_unfold a b :
  kcmp a b =
  if cmpZ (k_class a) (k_class b) =? 0 then
    if cmpZ (k_ord a) (k_ord b) =? 0 then
      if bytes_compare (k_str a) (k_str b) =? 0 then cmpZ (k_int a) (k_int b) else bytes_compare (k_str a) (k_str b)
    else cmpZ (k_ord a) (k_ord b)
  else cmpZ (k_class a) (k_class b).
Proof. reflexivity. Qed.

Lemma bytes_compare_refl s : bytes_compare s s = 0.
Proof. apply (cc_refl _ _ bytes_core); auto. Qed.

(* two qualifiers attached by '-' *)
Lemma step_QQ a b : isQ a -> isQ b -> me_sep a = 45%N -> me_sep b = 45%N -> me_int a = 0 -> me_int b = 0 ->
  mstep a b cat_qualifier cat_qualifier = ret (kcmp (key_of a) (key_of b)).
Proof.
  intros Qa Qb Sa Sb Ia Ib. rewrite (key_of_Q a Qa), (key_of_Q b Qb), kcmp_unfold.
  unfold k_class, k_ord, k_str, k_int; simpl fst; simpl snd. rewrite (cmpZ_refl 0). simpl (0 =? 0). cbv iota.
  unfold mstep. destruct (mvn_elem_eqb a b) eqn:E.
  { apply mvn_elem_eqb_eq in E. subst b. rewrite cmpZ_refl. simpl. rewrite bytes_compare_refl. reflexivity. }
  assert (NE : me_str a <> me_str b).
  { intros S. assert (mvn_elem_eqb a b = true); [|congruence].
    unfold mvn_elem_eqb. rewrite Sa, Sb, S, Ia, Ib, bytes_eqb_refl. reflexivity. }
  unfold qorder. rewrite empty_q. rewrite Sa, Sb. simpl (cat_qualifier =? cat_qualifier). cbv iota. simpl andb.
  set (oa := qualifier_order (me_str a)). set (ob := qualifier_order (me_str b)).
  destruct (-2 <? oa) eqn:Ua.
  - (* a unknown or sp *)
    unfold maven_unknown_qualifier_compare. simpl (cat_qualifier =? cat_qualifier). cbv iota.
    fold ob. destruct (oa =? ob) eqn:Eo.
    + apply Z.eqb_eq in Eo. rewrite <- Eo, cmpZ_refl, Ua. simpl (0 =? 0). cbv iota.
      rewrite Sa, Sb. simpl negb. cbv iota. unfold sgn_str, ret.
      destruct (bytes_compare (me_str a) (me_str b) =? 0) eqn:Z0; [|rewrite Z0; reflexivity].
      apply Z.eqb_eq in Z0. apply bytes_compare_eq in Z0. contradiction.
    + apply Z.eqb_neq in Eo. change sgnZ with cmpZ.
      assert (NZ : cmpZ oa ob <> 0) by (intros Z0; apply cmpZ_eq0 in Z0; contradiction).
      destruct (Z.eqb_spec (cmpZ oa ob) 0); [contradiction|]. rewrite ret_nz by auto. reflexivity.
  - (* a known *)
    destruct (-2 <? ob) eqn:Ub.
    + unfold maven_unknown_qualifier_compare. simpl (cat_qualifier =? cat_qualifier). cbv iota.
      fold oa. apply Z.ltb_ge in Ua. apply Z.ltb_lt in Ub.
      destruct (ob =? oa) eqn:Eo; [apply Z.eqb_eq in Eo; lia|].
      change sgnZ with cmpZ. rewrite cmpZ_antisym. unfold ret.
      rewrite (cmpZ_lt oa ob) by lia. reflexivity.
    + simpl (cat_qualifier =? cat_eof). cbv iota. simpl (cat_qualifier <? cat_qualifier). cbv iota.
      simpl (cat_qualifier =? cat_numeric). cbv iota. rewrite N.eqb_refl. simpl negb. cbv iota.
      unfold compare_maven_qualifier. fold oa ob. apply Z.ltb_ge in Ua. apply Z.ltb_ge in Ub.
      assert (L : (oa <? 0) = true) by (apply Z.ltb_lt; lia). rewrite L. simpl orb. cbv iota.
      change sgnZ with cmpZ.
      destruct (Z.eqb_spec (cmpZ oa ob) 0) as [Z0|Z0].
      * rewrite bytes_compare_refl. reflexivity.
      * rewrite ret_nz by auto. reflexivity.
Qed.

(* a qualifier attached by '-' against the end of the other list *)
Lemma step_Qpad a : isQ a -> me_sep a = 45%N ->
  mstep a (maven_pad 45) cat_qualifier cat_eof = ret (kcmp (key_of a) key_pad).
Proof.
  intros Qa Sa. rewrite (key_of_Q a Qa), kcmp_unfold. unfold key_pad.
  unfold k_class, k_ord, k_str, k_int; simpl fst; simpl snd. rewrite (cmpZ_refl 0). simpl (0 =? 0). cbv iota.
  assert (NE : me_str a <> []).
  { intros E. unfold isQ, cat_of in Qa. rewrite E in Qa. discriminate. }
  unfold mstep. destruct (mvn_elem_eqb a (maven_pad 45)) eqn:E.
  { apply mvn_elem_eqb_eq in E. rewrite E in NE. simpl in NE. congruence. }
  unfold qorder. rewrite empty_q. simpl (cat_qualifier =? cat_qualifier). cbv iota. simpl andb.
  set (oa := qualifier_order (me_str a)).
  destruct (-2 <? oa) eqn:Ua.
  - unfold maven_unknown_qualifier_compare. simpl (cat_eof =? cat_qualifier). cbv iota.
    simpl (cat_eof =? cat_eof). cbv iota. rewrite empty_q. change sgnZ with cmpZ.
    apply Z.ltb_lt in Ua. rewrite (cmpZ_gt oa (-2)) by lia. reflexivity.
  - simpl (cat_eof =? cat_qualifier). cbv iota. simpl andb. cbv iota.
    simpl (cat_qualifier =? cat_eof). simpl (cat_eof =? cat_eof). cbv iota.
    simpl (cat_qualifier <? cat_qualifier). cbv iota. simpl (cat_qualifier =? cat_numeric). cbv iota.
    rewrite Sa. simpl (me_sep (maven_pad 45)). rewrite N.eqb_refl. simpl negb. cbv iota.
    unfold compare_maven_qualifier. simpl (me_str (maven_pad 45)). rewrite order_nil. fold oa.
    simpl ((-2 <? 0)). rewrite orb_true_r. change sgnZ with cmpZ. unfold ret.
    change (cat_qualifier <? cat_qualifier) with false. cbv iota.
    simpl (bytes_compare [] []). simpl (0 =? 0). cbv iota.
    fin (cmpZ oa (-2)).
Qed.

Lemma step_padQ b : isQ b -> me_sep b = 45%N ->
  mstep (maven_pad 45) b cat_eof cat_qualifier = ret (kcmp key_pad (key_of b)).
Proof.
  intros Qb Sb. rewrite (key_of_Q b Qb), kcmp_unfold. unfold key_pad.
  unfold k_class, k_ord, k_str, k_int; simpl fst; simpl snd. rewrite (cmpZ_refl 0). simpl (0 =? 0). cbv iota.
  assert (NE : me_str b <> []).
  { intros E. unfold isQ, cat_of in Qb. rewrite E in Qb. discriminate. }
  unfold mstep. destruct (mvn_elem_eqb (maven_pad 45) b) eqn:E.
  { apply mvn_elem_eqb_eq in E. rewrite <- E in NE. simpl in NE. congruence. }
  unfold qorder. rewrite empty_q. simpl (cat_eof =? cat_qualifier). cbv iota. simpl andb. cbv iota.
  simpl (cat_qualifier =? cat_qualifier). simpl andb.
  set (ob := qualifier_order (me_str b)).
  destruct (-2 <? ob) eqn:Ub.
  - unfold maven_unknown_qualifier_compare. simpl (cat_eof =? cat_qualifier). cbv iota.
    simpl (cat_eof =? cat_eof). cbv iota. rewrite empty_q. change sgnZ with cmpZ.
    apply Z.ltb_lt in Ub. rewrite (cmpZ_gt ob (-2)) by lia. rewrite (cmpZ_lt (-2) ob) by lia. reflexivity.
  - simpl (cat_eof =? cat_eof). simpl (cat_qualifier =? cat_eof). cbv iota.
    simpl (cat_qualifier <? cat_qualifier). cbv iota. simpl (cat_qualifier =? cat_numeric). cbv iota.
    rewrite Sb. simpl (me_sep (maven_pad 45)). rewrite N.eqb_refl. simpl negb. cbv iota.
    unfold compare_maven_qualifier. simpl (me_str (maven_pad 45)). rewrite order_nil. fold ob.
    simpl ((-2 <? 0)). simpl orb. cbv iota. change sgnZ with cmpZ. unfold ret.
    change (cat_qualifier <? cat_qualifier) with false. cbv iota.
    simpl (bytes_compare [] []). simpl (0 =? 0). cbv iota.
    fin (cmpZ (-2) ob).
Qed.

(* ------------------------------------------------------------------ tail elements *)
Local Arguments maven_step : simpl never.
Local Arguments kcmp : simpl never.
Local Arguments key_of : simpl never.
Local Arguments cmpZ : simpl never.
Lemma isN_not_Q e : isN e -> cat_of e <> cat_qualifier.
Proof. unfold isN. intros ->. discriminate. Qed.

Lemma kcmp_QN a b : isQ a -> isN b -> kcmp (key_of a) (key_of b) = -1.
Proof. intros Qa Nb. rewrite (key_of_Q a Qa), (key_of_N b Nb). reflexivity. Qed.
Lemma kcmp_NQ a b : isN a -> isQ b -> kcmp (key_of a) (key_of b) = 1.
Proof. intros Na Qb. rewrite (key_of_N a Na), (key_of_Q b Qb). reflexivity. Qed.
Lemma kcmp_Npad a : isN a -> kcmp (key_of a) key_pad = 1.
Proof. intros Na. rewrite (key_of_N a Na). reflexivity. Qed.
Lemma kcmp_padN a : isN a -> kcmp key_pad (key_of a) = -1.
Proof. intros Na. rewrite (key_of_N a Na). reflexivity. Qed.

Lemma kcmp_NN a b : isN a -> isN b ->
  kcmp (key_of a) (key_of b) =
  if cmpZ (Z.of_N (me_sep a)) (Z.of_N (me_sep b)) =? 0 then cmpZ (me_int a) (me_int b)
  else cmpZ (Z.of_N (me_sep a)) (Z.of_N (me_sep b)).
Proof.
  intros Na Nb. rewrite (key_of_N a Na), (key_of_N b Nb), kcmp_unfold.
  unfold k_class, k_ord, k_str, k_int; simpl fst; simpl snd. rewrite (cmpZ_refl 1). simpl (0 =? 0). cbv iota.
  simpl (bytes_compare [] []). simpl (0 =? 0). cbv iota. reflexivity.
Qed.

Lemma step_td a b : td a -> td b -> maven_step (Some a) (Some b) = ret (kcmp (key_of a) (key_of b)).
Proof.
  intros Ta Tb. rewrite step_both.
  destruct (td_cases a Ta) as [[Sa [Qa Ia]]|[Na Sa]], (td_cases b Tb) as [[Sb [Qb Ib]]|[Nb Sb]].
  - rewrite Qa, Qb. apply step_QQ; auto.
  - rewrite (kcmp_QN a b Qa Nb). apply step_QN; auto. apply diff_cat_neq. rewrite Qa, Nb. discriminate.
  - rewrite (kcmp_NQ a b Na Qb). apply step_NQ; auto. apply diff_cat_neq. rewrite Na, Qb. discriminate.
  - rewrite (kcmp_NN a b Na Nb).
    destruct (N.eq_dec (me_sep a) (me_sep b)) as [E|E].
    + rewrite E, cmpZ_refl. simpl (0 =? 0). cbv iota. apply step_NN; auto.
    + rewrite (step_NN_sep a b _ _ Na Nb E).
      destruct Sa as [Sa|[Sa _]], Sb as [Sb|[Sb _]]; rewrite Sa, Sb in *; try congruence; reflexivity.
Qed.

Lemma td_not_pad a : td a -> isN a -> mvn_elem_eqb a (maven_pad (me_sep a)) = false.
Proof.
  intros Ta Na. destruct (mvn_elem_eqb a (maven_pad (me_sep a))) eqn:E; auto.
  apply mvn_elem_eqb_eq in E. exfalso.
  destruct (td_cases a Ta) as [[_ [Qa _]]|[_ [Sa|[Sa Z]]]].
  - unfold isQ in Qa. unfold isN in Na. rewrite Na in Qa. discriminate.
  - rewrite Sa in E. apply (isN_str_nonnil a Na). rewrite E. reflexivity.
  - rewrite Sa in E. apply Z. rewrite E. reflexivity.
Qed.

Lemma step_td_l a : td a -> maven_step (Some a) None = ret (kcmp (key_of a) key_pad).
Proof.
  intros Ta. rewrite step_left.
  destruct (td_cases a Ta) as [[Sa [Qa Ia]]|[Na Sa]].
  - rewrite Sa, Qa. apply step_Qpad; auto.
  - rewrite (kcmp_Npad a Na). apply step_Npad; auto. apply td_not_pad; auto.
Qed.

Lemma mvn_elem_eqb_sym a b : mvn_elem_eqb a b = mvn_elem_eqb b a.
Proof.
  destruct (mvn_elem_eqb a b) eqn:E, (mvn_elem_eqb b a) eqn:F; auto.
  - apply mvn_elem_eqb_eq in E. subst. rewrite mvn_elem_eqb_refl in F. discriminate.
  - apply mvn_elem_eqb_eq in F. subst. rewrite mvn_elem_eqb_refl in E. discriminate.
Qed.

Lemma step_td_r b : td b -> maven_step None (Some b) = ret (kcmp key_pad (key_of b)).
Proof.
  intros Tb. rewrite step_right.
  destruct (td_cases b Tb) as [[Sb [Qb Ib]]|[Nb Sb]].
  - rewrite Sb, Qb. apply step_padQ; auto.
  - rewrite (kcmp_padN b Nb). apply step_padN; auto. rewrite mvn_elem_eqb_sym. apply td_not_pad; auto.
Qed.

Definition norm (r : Z) : option Z := if r =? 0 then None else Some r.

Lemma loop_l_td xs : Forall td xs -> maven_loop_l xs = Ok (norm (pad_l kcmp key_pad (map key_of xs))).
Proof.
  induction 1 as [|x xs Hx _ IH]; [reflexivity|].
  simpl. rewrite (step_td_l x Hx). unfold ret, norm in *.
  destruct (kcmp (key_of x) key_pad =? 0) eqn:E; auto. rewrite E. reflexivity.
Qed.
Lemma loop_r_td ys : Forall td ys -> maven_loop_r ys = Ok (norm (pad_r kcmp key_pad (map key_of ys))).
Proof.
  induction 1 as [|y ys Hy _ IH]; [reflexivity|].
  simpl. rewrite (step_td_r y Hy). unfold ret, norm in *.
  destruct (kcmp key_pad (key_of y) =? 0) eqn:E; auto. rewrite E. reflexivity.
Qed.
Lemma loop_td xs : forall ys, Forall td xs -> Forall td ys ->
  maven_loop xs ys = Ok (norm (pad_lex kcmp key_pad (map key_of xs) (map key_of ys))).
Proof.
  induction xs as [|x xs IH]; intros ys Hx Hy.
  - replace (maven_loop [] ys) with (maven_loop_r ys) by (destruct ys; reflexivity).
    replace (pad_lex kcmp key_pad (map key_of []) (map key_of ys)) with (pad_r kcmp key_pad (map key_of ys))
      by (destruct ys; reflexivity).
    apply loop_r_td; auto.
  - destruct ys as [|y ys].
    + apply (loop_l_td (x :: xs)); auto.
    + inversion Hx; inversion Hy; subst. simpl. rewrite (step_td x y) by auto. unfold ret, norm.
      destruct (kcmp (key_of x) (key_of y) =? 0) eqn:E; [apply IH; auto | rewrite E; reflexivity].
Qed.

(* ------------------------------------------------------------------ the numeric prefix *)
Definition pre (e : mvn_elem) : Prop := pre_elem e = true.

Lemma pre_cases e : pre e -> me_sep e = 46%N /\ isN e.
Proof.
  unfold pre, pre_elem, is_num_elem, isN. fold (cat_of e). intros H. apply andb_true_iff in H.
  destruct H as [H1 H2]. apply N.eqb_eq in H1. apply Z.eqb_eq in H2. auto.
Qed.

Lemma step_pre_l e : pre e ->
  maven_step (Some e) None = if mvn_elem_eqb e (maven_pad 46) then Continue else Return 1.
Proof.
  intros P. destruct (pre_cases e P) as [S Ne]. rewrite step_left, S.
  destruct (mvn_elem_eqb e (maven_pad 46)) eqn:E.
  - unfold mstep. rewrite E. reflexivity.
  - apply step_Npad; auto.
Qed.
Lemma step_pre_r e : pre e ->
  maven_step None (Some e) = if mvn_elem_eqb e (maven_pad 46) then Continue else Return (-1).
Proof.
  intros P. destruct (pre_cases e P) as [S Ne]. rewrite step_right, S.
  destruct (mvn_elem_eqb e (maven_pad 46)) eqn:E.
  - unfold mstep. rewrite mvn_elem_eqb_sym, E. reflexivity.
  - apply step_padN; auto. rewrite mvn_elem_eqb_sym. auto.
Qed.

Lemma last_nz_single e : last_not_zero [e] = true -> mvn_elem_eqb e (maven_pad 46) = false.
Proof.
  simpl. intros H. apply negb_true_iff in H. apply bytes_eqb_neq in H.
  destruct (mvn_elem_eqb e (maven_pad 46)) eqn:E; auto. apply mvn_elem_eqb_eq in E. subst. exfalso. apply H. reflexivity.
Qed.

(* a trimmed non-empty rest of a prefix beats the end of the other list, whatever follows it *)
Lemma loop_l_prefix p t : Forall pre p -> p <> [] -> last_not_zero p = true ->
  maven_loop_l (p ++ t) = Ok (Some 1).
Proof.
  induction 1 as [|e p He Hp IH]; intros Hn Hl; [congruence|].
  simpl. rewrite (step_pre_l e He).
  destruct p as [|e' p'].
  - rewrite (last_nz_single e Hl). reflexivity.
  - destruct (mvn_elem_eqb e (maven_pad 46)); auto. apply IH; [discriminate | exact Hl].
Qed.
Lemma loop_r_prefix p t : Forall pre p -> p <> [] -> last_not_zero p = true ->
  maven_loop_r (p ++ t) = Ok (Some (-1)).
Proof.
  induction 1 as [|e p He Hp IH]; intros Hn Hl; [congruence|].
  simpl. rewrite (step_pre_r e He).
  destruct p as [|e' p'].
  - rewrite (last_nz_single e Hl). reflexivity.
  - destruct (mvn_elem_eqb e (maven_pad 46)); auto. apply IH; [discriminate | exact Hl].
Qed.

(* a prefix element against a tail element attached by '-' *)
Lemma step_pre_td x y : pre x -> td y -> me_sep y = 45%N -> maven_step (Some x) (Some y) = Return 1.
Proof.
  intros Px Ty Sy. destruct (pre_cases x Px) as [Sx Nx]. rewrite step_both.
  destruct (td_cases y Ty) as [[_ [Qy _]]|[Ny _]].
  - apply step_NQ; auto. apply diff_cat_neq. rewrite Nx, Qy. discriminate.
  - rewrite (step_NN_sep x y _ _ Nx Ny); rewrite Sx, Sy; [reflexivity | discriminate].
Qed.
Lemma step_td_pre x y : td x -> me_sep x = 45%N -> pre y -> maven_step (Some x) (Some y) = Return (-1).
Proof.
  intros Tx Sx Py. destruct (pre_cases y Py) as [Sy Ny]. rewrite step_both.
  destruct (td_cases x Tx) as [[_ [Qx _]]|[Nx _]].
  - apply step_QN; auto. apply diff_cat_neq. rewrite Qx, Ny. discriminate.
  - rewrite (step_NN_sep x y _ _ Nx Ny); rewrite Sx, Sy; [reflexivity | discriminate].
Qed.

Lemma step_pre_pre x y : pre x -> pre y -> maven_step (Some x) (Some y) = ret (cmpZ (me_int x) (me_int y)).
Proof.
  intros Px Py. destruct (pre_cases x Px) as [Sx Nx], (pre_cases y Py) as [Sy Ny].
  rewrite step_both. apply step_NN; auto. congruence.
Qed.

Definition hd_dash (t : list mvn_elem) : Prop := head_dash t = true.

Lemma last_nz_cons e p : p <> [] -> last_not_zero (e :: p) = last_not_zero p.
Proof. destruct p; [congruence | reflexivity]. Qed.

(* the whole loop on  prefix ++ tail  against  prefix ++ tail *)
Definition mkey := (list Z * list tkey)%type.
Definition mkey_cmp : mkey -> mkey -> Z :=
  lex (fun a b => list_lex cmpZ (-1) (fst a) (fst b)) (fun a b => pad_lex kcmp key_pad (snd a) (snd b)).

Lemma loop_main p1 : forall p2 t1 t2,
  Forall pre p1 -> Forall pre p2 -> last_not_zero p1 = true -> last_not_zero p2 = true ->
  Forall td t1 -> Forall td t2 -> hd_dash t1 -> hd_dash t2 ->
  maven_loop (p1 ++ t1) (p2 ++ t2) =
  Ok (norm (mkey_cmp (map me_int p1, map key_of t1) (map me_int p2, map key_of t2))).
Proof.
  unfold mkey_cmp, lex. simpl fst. simpl snd.
  induction p1 as [|x p1 IH]; intros p2 t1 t2 P1 P2 L1 L2 T1 T2 D1 D2.
  - destruct p2 as [|y p2].
    + simpl. apply loop_td; auto.
    + simpl app. simpl map. simpl list_lex. simpl (-1 =? 0). cbv iota.
      destruct t1 as [|a t1].
      * change (maven_loop [] (y :: p2 ++ t2)) with (maven_loop_r ((y :: p2) ++ t2)).
        rewrite loop_r_prefix; auto. discriminate.
      * inversion P2; inversion T1; subst. simpl. rewrite step_td_pre; auto.
        unfold hd_dash in D1. simpl in D1. apply N.eqb_eq in D1. auto.
  - destruct p2 as [|y p2].
    + simpl app. simpl map. simpl list_lex. simpl (- -1 =? 0). cbv iota.
      destruct t2 as [|b t2].
      * replace (maven_loop (x :: p1 ++ t1) []) with (maven_loop_l ((x :: p1) ++ t1)) by reflexivity.
        rewrite loop_l_prefix; auto. discriminate.
      * inversion P1; inversion T2; subst. simpl. rewrite step_pre_td; auto.
        unfold hd_dash in D2. simpl in D2. apply N.eqb_eq in D2. auto.
    + inversion P1; inversion P2; subst. simpl. rewrite step_pre_pre by auto. unfold ret.
      destruct (cmpZ (me_int x) (me_int y) =? 0) eqn:E.
      * apply IH; auto.
        -- destruct p1; [reflexivity | rewrite last_nz_cons in L1; [auto | discriminate]].
        -- destruct p2; [reflexivity | rewrite last_nz_cons in L2; [auto | discriminate]].
      * unfold norm. rewrite ?E. cbv iota. rewrite ?E. reflexivity.
Qed.

(* ------------------------------------------------------------------ the final length test *)
Lemma list_lex_zero_len {A} (c : A -> A -> Z) short l1 : forall l2, short <> 0 ->
  list_lex c short l1 l2 = 0 -> length l1 = length l2.
Proof.
  induction l1 as [|x t1 IH]; intros [|y t2] Hs H; simpl in *; auto; try lia.
  destruct (c x y =? 0) eqn:E; [f_equal; eauto | apply Z.eqb_neq in E; contradiction].
Qed.

Lemma key_pad_equiv e : td e -> kcmp (key_of e) key_pad = 0 \/ kcmp key_pad (key_of e) = 0 ->
  is_empty_elem (me_str e) = true.
Proof.
  intros Te H.
  assert (H' : kcmp (key_of e) key_pad = 0).
  { destruct H; auto. pose proof (cc_antisym _ _ kcmp_core (key_of e) key_pad I I) as A. rewrite H in A.
    simpl in A. destruct (kcmp (key_of e) key_pad); simpl in A; try discriminate; auto. }
  destruct (td_cases e Te) as [[_ [Qe _]]|[Ne _]].
  - rewrite (key_of_Q e Qe) in H'. unfold kcmp in H'. apply lex_eq0 in H'. destruct H' as [_ H'].
    apply lex_eq0 in H'. destruct H' as [H' _]. apply cmpZ_eq0 in H'.
    unfold k_ord, key_pad in H'. simpl in H'. unfold qorder in H'.
    unfold is_empty_elem, is_empty_elem_with. rewrite H', Z.eqb_refl. apply orb_true_r.
  - rewrite (kcmp_Npad e Ne) in H'. discriminate.
Qed.

Lemma wide_tail_td t : wide_tail t = true -> Forall td t.
Proof.
  induction t as [|e t IH]; intros H; constructor.
  - simpl in H. apply andb_true_iff in H. destruct H as [H _]. apply andb_true_iff in H. apply H.
  - apply IH. simpl in H. apply andb_true_iff in H. apply H.
Qed.

Lemma wide_tail_skipn n : forall t, wide_tail t = true -> wide_tail (skipn n t) = true.
Proof.
  induction n as [|n IH]; intros t H; auto. destruct t as [|e t]; auto.
  simpl skipn. apply IH. simpl in H. apply andb_true_iff in H. apply H.
Qed.

Lemma wide_tail_not_all_empty t : wide_tail t = true -> t <> [] ->
  Forall (fun e => is_empty_elem (me_str e) = true) t -> False.
Proof.
  induction t as [|e t IH]; intros H Hn F; [congruence|].
  inversion F as [|? ? Fe Ft]; subst.
  simpl in H. apply andb_true_iff in H. destruct H as [H Hw]. apply andb_true_iff in H. destruct H as [_ Hl].
  destruct t as [|e' t'].
  - rewrite Fe in Hl. discriminate.
  - apply IH; auto. discriminate.
Qed.

Lemma skipn_nonnil {A} n (l : list A) : (n < length l)%nat -> skipn n l <> [].
Proof. intros H E. pose proof (skipn_length n l) as L. rewrite E in L. simpl in L. lia. Qed.

Lemma Forall_skipn {A} (P : A -> Prop) n : forall l, Forall P l -> Forall P (skipn n l).
Proof. induction n; intros l H; auto. destruct l; auto. inversion H; subst. simpl. auto. Qed.

Lemma tails_zero_len t1 t2 : wide_tail t1 = true -> wide_tail t2 = true ->
  pad_lex kcmp key_pad (map key_of t1) (map key_of t2) = 0 -> length t1 = length t2.
Proof.
  intros W1 W2 H. apply pad_lex_zero_tail in H. rewrite !map_length, !skipn_map in H. destruct H as [H1 H2].
  destruct (Nat.lt_trichotomy (length t1) (length t2)) as [L|[L|L]]; auto; exfalso.
  - apply (wide_tail_not_all_empty (skipn (length t1) t2)).
    + apply wide_tail_skipn; auto.
    + apply skipn_nonnil; auto.
    + rewrite Forall_map in H2.
      pose proof (Forall_skipn _ (length t1) _ (wide_tail_td t2 W2)) as T.
      rewrite Forall_forall in *. intros e He. apply key_pad_equiv; auto.
  - apply (wide_tail_not_all_empty (skipn (length t2) t1)).
    + apply wide_tail_skipn; auto.
    + apply skipn_nonnil; auto.
    + rewrite Forall_map in H1.
      pose proof (Forall_skipn _ (length t2) _ (wide_tail_td t1 W1)) as T.
      rewrite Forall_forall in *. intros e He. apply key_pad_equiv; auto.
Qed.

(* ------------------------------------------------------------------ the domain, decomposed *)
Lemma split_prefix_spec r : r = fst (split_prefix r) ++ snd (split_prefix r) /\ Forall pre (fst (split_prefix r)).
Proof.
  induction r as [|e r [IH1 IH2]]; simpl; auto.
  destruct (pre_elem e) eqn:E; simpl; auto.
  destruct (split_prefix r) as [p t]. simpl in *. split; [f_equal; auto | constructor; auto].
Qed.

Record wide_parts (l : list mvn_elem) (e0 : mvn_elem) (p t : list mvn_elem) : Prop := {
  wp_eq : l = e0 :: p ++ t;
  wp_sep : me_sep e0 = 0%N;
  wp_num : isN e0;
  wp_pre : Forall pre p;
  wp_last : last_not_zero p = true;
  wp_dash : hd_dash t;
  wp_tail : wide_tail t = true;
  wp_prefix : mvn_prefix l = e0 :: p;
  wp_mtail : mvn_tail l = t }.

Lemma wide_decompose l : d_mvn_wide l = true -> exists e0 p t, wide_parts l e0 p t.
Proof.
  destruct l as [|e0 r]; [discriminate|]. unfold d_mvn_wide. intros H.
  repeat (apply andb_true_iff in H; destruct H as [H ?]).
  destruct (split_prefix_spec r) as [E P].
  exists e0, (fst (split_prefix r)), (snd (split_prefix r)). split; auto.
  - f_equal; auto.
  - apply N.eqb_eq; auto.
  - unfold is_num_elem in *. apply Z.eqb_eq; auto.
Qed.

Definition mvn_key (l : list mvn_elem) : mkey := (map me_int (mvn_prefix l), map key_of (mvn_tail l)).

Lemma loop_full e0 p1 t1 f0 p2 t2 :
  me_sep e0 = 0%N -> me_sep f0 = 0%N -> isN e0 -> isN f0 ->
  Forall pre p1 -> Forall pre p2 -> last_not_zero p1 = true -> last_not_zero p2 = true ->
  wide_tail t1 = true -> wide_tail t2 = true -> hd_dash t1 -> hd_dash t2 ->
  maven_loop (e0 :: p1 ++ t1) (f0 :: p2 ++ t2) =
  Ok (norm (mkey_cmp (me_int e0 :: map me_int p1, map key_of t1) (me_int f0 :: map me_int p2, map key_of t2))).
Proof.
  intros S1 S2 N1 N2 P1 P2 L1 L2 W1 W2 D1 D2.
  change (maven_loop (e0 :: p1 ++ t1) (f0 :: p2 ++ t2)) with
    (match maven_step (Some e0) (Some f0) with
     | Continue => maven_loop (p1 ++ t1) (p2 ++ t2)
     | Return r => Ok (Some r)
     | PanicStep => Panic PExplicit end).
  rewrite step_both, (step_NN e0 f0 _ _ N1 N2) by congruence.
  unfold mkey_cmp, lex. simpl fst. simpl snd. simpl list_lex. unfold ret.
  destruct (cmpZ (me_int e0) (me_int f0) =? 0) eqn:E.
  - rewrite (loop_main p1 p2 t1 t2) by (auto using wide_tail_td). reflexivity.
  - rewrite E. unfold norm. rewrite E. reflexivity.
Qed.

Theorem maven_compare_key l1 l2 : d_mvn_wide l1 = true -> d_mvn_wide l2 = true ->
  maven_compare l1 l2 = Ok (mkey_cmp (mvn_key l1) (mvn_key l2)).
Proof.
  intros H1 H2.
  destruct (wide_decompose l1 H1) as [e0 [p1 [t1 W1]]], (wide_decompose l2 H2) as [f0 [p2 [t2 W2]]].
  unfold maven_compare, mvn_key. rewrite (wp_prefix _ _ _ _ W1), (wp_prefix _ _ _ _ W2), (wp_mtail _ _ _ _ W1), (wp_mtail _ _ _ _ W2).
  rewrite (wp_eq _ _ _ _ W1), (wp_eq _ _ _ _ W2).
  rewrite (loop_full e0 p1 t1 f0 p2 t2) by (destruct W1, W2; auto).
  simpl map. unfold norm.
  set (r := mkey_cmp (me_int e0 :: map me_int p1, map key_of t1) (me_int f0 :: map me_int p2, map key_of t2)).
  destruct (Z.eqb_spec r 0) as [E|E]; auto.
  rewrite E. reflexivity.
Qed.

(* ------------------------------------------------------------------ laws *)
Lemma mkey_core : cmp_core (fun _ : mkey => True) mkey_cmp.
Proof.
  unfold mkey_cmp. apply core_lex.
  - apply (core_pullback (@fst (list Z) (list tkey)) (fun _ => True) (Forall (fun _ : Z => True)) (list_lex cmpZ (-1))).
    + intros a _. apply Forall_True.
    + apply core_list_lex; [apply cmpZ_core | lia].
  - apply (core_pullback (@snd (list Z) (list tkey)) (fun _ => True) (Forall (fun _ : tkey => True)) (pad_lex kcmp key_pad)).
    + intros a _. apply Forall_True.
    + apply (core_pad_lex kcmp key_pad (fun _ => True) kcmp_core I).
Qed.

Definition mvn_elems (v : version) : list mvn_elem := match v_ext v with MavenExt l => l | _ => [] end.
Definition mvn_cmp_v (a b : version) : Z := mkey_cmp (mvn_key (mvn_elems a)) (mvn_key (mvn_elems b)).

(* a Maven version whose element list is in the given domain *)
Definition mvn_in (d : list mvn_elem -> bool) (v : version) : Prop :=
  v_sys v = SMaven /\ v_ext v = MavenExt (mvn_elems v) /\ d (mvn_elems v) = true.

Lemma maven_compare_ok a b : mvn_in d_mvn_wide a -> mvn_in d_mvn_wide b -> compare a b = Ok (mvn_cmp_v a b).
Proof.
  intros [Sa [Ea Da]] [Sb [Eb Db]]. unfold compare. rewrite Sa, Sb. simpl. rewrite Ea, Eb.
  apply maven_compare_key; auto.
Qed.

Lemma maven_core_wide : cmp_core (mvn_in d_mvn_wide) mvn_cmp_v.
Proof.
  apply (core_pullback (fun v => mvn_key (mvn_elems v)) (mvn_in d_mvn_wide) (fun _ => True) mkey_cmp); auto.
  apply mkey_core.
Qed.

Theorem maven_laws_wide : exists c : version -> version -> Z,
  (forall a b, mvn_in d_mvn_wide a -> mvn_in d_mvn_wide b -> compare a b = Ok (c a b)) /\
  cmp_laws (mvn_in d_mvn_wide) c.
Proof. exists mvn_cmp_v. split; [exact maven_compare_ok | apply core_laws, maven_core_wide]. Qed.

Lemma d_mvn_sub l : d_mvn l = true -> d_mvn_wide l = true.
Proof. unfold d_mvn. intros H. apply andb_true_iff in H. apply H. Qed.

Lemma mvn_in_sub v : mvn_in d_mvn v -> mvn_in d_mvn_wide v.
Proof. intros [S [E D]]. repeat split; auto. apply d_mvn_sub; auto. Qed.

Theorem maven_laws : exists c : version -> version -> Z,
  (forall a b, mvn_in d_mvn a -> mvn_in d_mvn b -> compare a b = Ok (c a b)) /\
  cmp_laws (mvn_in d_mvn) c.
Proof.
  exists mvn_cmp_v. split.
  - intros a b Ha Hb. apply maven_compare_ok; apply mvn_in_sub; auto.
  - apply core_laws. apply (core_weaken (mvn_in d_mvn_wide) (mvn_in d_mvn)); [apply mvn_in_sub | apply maven_core_wide].
Qed.

(* ------------------------------------------------------------------ no panic (C04 obligation) *)
(* mavenUnknownQualifierCompare ends with panic(bCategory); it is reached only for a category
   other than qualifier, end-of-list and numeric.  Elements whose text is non-empty and does
   not start with a separator have category numeric or qualifier. *)
Definition okcat (e : mvn_elem) : Prop := cat_of e = cat_numeric \/ cat_of e = cat_qualifier.
Definition okc (c : Z) : Prop := c = cat_numeric \/ c = cat_qualifier \/ c = cat_eof.

Lemma unknown_cmp_some a b o bc : okc bc -> maven_unknown_qualifier_compare a b o bc <> None.
Proof.
  intros [ -> | [ -> | -> ] ]; unfold maven_unknown_qualifier_compare; simpl;
    repeat match goal with |- context [if ?c then _ else _] => destruct c end; discriminate.
Qed.

Lemma mstep_no_panic a b ac bc : okc ac -> okc bc -> mstep a b ac bc <> PanicStep.
Proof.
  intros Ha Hb. unfold mstep.
  destruct (mvn_elem_eqb a b); [discriminate|].
  destruct ((ac =? cat_qualifier) && (maven_empty_qualifier <? qualifier_order (me_str a))).
  { destruct (maven_unknown_qualifier_compare a b (qualifier_order (me_str a)) bc) eqn:U; [discriminate|].
    exfalso. revert U. apply unknown_cmp_some; auto. }
  destruct ((bc =? cat_qualifier) && (maven_empty_qualifier <? qualifier_order (me_str b))).
  { destruct (maven_unknown_qualifier_compare b a (qualifier_order (me_str b)) ac) eqn:U; [discriminate|].
    exfalso. revert U. apply unknown_cmp_some; auto. }
  cbv zeta.
  repeat match goal with |- context [if ?c then _ else _] => destruct c end; discriminate.
Qed.

Lemma okcat_okc e : okcat e -> okc (cat_of e).
Proof. intros [H|H]; rewrite H; unfold okc; auto. Qed.
Lemma okc_eof : okc cat_eof.
Proof. unfold okc; auto. Qed.

Lemma loop_l_no_panic xs : Forall okcat xs -> forall p, maven_loop_l xs <> Panic p.
Proof.
  induction 1 as [|x xs Hx _ IH]; intros p; [discriminate|].
  change (maven_loop_l (x :: xs)) with
    (match maven_step (Some x) None with Continue => maven_loop_l xs | Return r => Ok (Some r) | PanicStep => Panic PExplicit end).
  pose proof (mstep_no_panic x (maven_pad (me_sep x)) _ _ (okcat_okc x Hx) okc_eof) as N. rewrite <- step_left in N.
  destruct (maven_step (Some x) None); [apply IH | discriminate | congruence].
Qed.
Lemma loop_r_no_panic ys : Forall okcat ys -> forall p, maven_loop_r ys <> Panic p.
Proof.
  induction 1 as [|y ys Hy _ IH]; intros p; [discriminate|].
  change (maven_loop_r (y :: ys)) with
    (match maven_step None (Some y) with Continue => maven_loop_r ys | Return r => Ok (Some r) | PanicStep => Panic PExplicit end).
  pose proof (mstep_no_panic (maven_pad (me_sep y)) y _ _ okc_eof (okcat_okc y Hy)) as N. rewrite <- step_right in N.
  destruct (maven_step None (Some y)); [apply IH | discriminate | congruence].
Qed.
Lemma loop_no_panic xs : forall ys, Forall okcat xs -> Forall okcat ys -> forall p, maven_loop xs ys <> Panic p.
Proof.
  induction xs as [|x xs IH]; intros ys Hx Hy p.
  - replace (maven_loop [] ys) with (maven_loop_r ys) by (destruct ys; reflexivity). apply loop_r_no_panic; auto.
  - destruct ys as [|y ys].
    + apply (loop_l_no_panic (x :: xs)); auto.
    + inversion Hx; inversion Hy; subst.
      change (maven_loop (x :: xs) (y :: ys)) with
        (match maven_step (Some x) (Some y) with Continue => maven_loop xs ys | Return r => Ok (Some r) | PanicStep => Panic PExplicit end).
      pose proof (mstep_no_panic x y _ _ (okcat_okc x ltac:(auto)) (okcat_okc y ltac:(auto))) as N. rewrite <- step_both in N.
      destruct (maven_step (Some x) (Some y)); [apply IH; auto | discriminate | congruence].
Qed.

Theorem maven_compare_no_panic xs ys : Forall okcat xs -> Forall okcat ys ->
  exists r, maven_compare xs ys = Ok r.
Proof.
  intros Hx Hy. unfold maven_compare. pose proof (loop_no_panic xs ys Hx Hy) as N.
  assert (F : maven_loop xs ys <> OutOfFuel /\ forall e, maven_loop xs ys <> Err e).
  { clear N Hx Hy. revert ys. induction xs as [|x xs IH]; intros ys.
    - replace (maven_loop [] ys) with (maven_loop_r ys) by (destruct ys; reflexivity).
      induction ys as [|y ys IHy]; [split; intros; discriminate|].
      simpl. destruct (maven_step None (Some y)); auto; split; intros; discriminate.
    - destruct ys as [|y ys].
      + simpl. destruct (maven_step (Some x) None); try (split; intros; discriminate).
        clear IH. induction xs as [|x' xs IHx]; [split; intros; discriminate|].
        simpl. destruct (maven_step (Some x') None); auto; split; intros; discriminate.
      + simpl. destruct (maven_step (Some x) (Some y)); auto; split; intros; discriminate. }
  destruct F as [F1 F2].
  destruct (maven_loop xs ys) as [[r|]| | |]; eauto; try congruence; exfalso;
    solve [eapply F2; reflexivity | eapply N; reflexivity].
Qed.

(* ------------------------------------------------------------------ outside the domain *)
Definition s_2_milestone : bytes := [50; 46; 46; 109; 105; 108; 101; 115; 116; 111; 110; 101]%N.
Definition s_2 : bytes := [50]%N.
Definition s_2_m_foo : bytes := [50; 46; 109; 45; 102; 111; 111]%N.

(* 2..milestone < 2 < 2.m-foo < 2..milestone *)
Lemma maven_cycle_c :
  match mvn_parse s_2_milestone, mvn_parse s_2, mvn_parse s_2_m_foo with
  | Some (Ok a), Some (Ok b), Some (Ok c) =>
      compare a b = Ok (-1) /\ compare b c = Ok (-1) /\ compare a c = Ok 1
  | _, _, _ => False
  end.
Proof. vm_compute. repeat split; reflexivity. Qed.

Definition s_1_0_alpha_1 : bytes := [49; 46; 48; 45; 97; 108; 112; 104; 97; 45; 49]%N.
Definition s_1_0_snapshot : bytes := [49; 46; 48; 45; 83; 78; 65; 80; 83; 72; 79; 84]%N.
Definition s_1_1 : bytes := [49; 46; 49]%N.

(* non-vacuity: 1.0-alpha-1 < 1.0-SNAPSHOT < 1.1 are accepted and in D_mvn *)
Lemma maven_domain_nonvacuous_c :
  match mvn_parse s_1_0_alpha_1, mvn_parse s_1_0_snapshot, mvn_parse s_1_1 with
  | Some (Ok a), Some (Ok b), Some (Ok c) =>
      d_mvn (mvn_elems a) = true /\ d_mvn (mvn_elems b) = true /\ d_mvn (mvn_elems c) = true /\
      d_mvn_str s_1_0_alpha_1 = true /\
      compare a b = Ok (-1) /\ compare b c = Ok (-1) /\ compare a c = Ok (-1)
  | _, _, _ => False
  end.
Proof. vm_compute. repeat split; reflexivity. Qed.
