(* C03, PyPI layer: the spans opVersionToSpan / excludeToSpans build for the operators of PEP 440
   applied to a FINAL release M.m.p written with three numbers, against packaging's
   Specifier.contains (Spec/Pep440Specifier.v) on FINAL-release candidates with a non-zero release
   segment (the domain of the property).
   A final release carries the extension object with no details (Pep440Ext None), for which
   rebuildExtension is the identity: the version parser is not consulted by these operators.
   The special cases of matchVersion for PyPI (prerelease / dev candidates against spans without
   such bounds, post releases against an open lower bound, local versions) all test properties
   the candidate does not have in this domain; lemma match_span_final is where they drop out. *)
From Coq Require Import Lia List ZArith Bool.
From DepsDev Require Import Lib.Base Lib.Order Semver.Version Semver.Maven Semver.Gem Semver.Pep440 Semver.Compare
     Semver.Span Semver.Interval Semver.Set Semver.Constraint Semver.Inter_proofs Semver.Inc_proofs Gen.SemverTables.
From DepsDev Require Spec.MavenRange Semver.C03_maven_proofs Spec.Pep440Specifier.
Import ListNotations.
Local Open Scope Z_scope.

Module PS := Spec.Pep440Specifier.
Module MP := Semver.C03_maven_proofs.
Module MR := Spec.MavenRange.

(* ---------------------------------------------------------------- the order *)
Lemma cmp_zero_l_tail a : cmp_zero_l a = MR.tail_compare a.
Proof. induction a as [|x a IH]; [reflexivity|]. simpl. rewrite IH. reflexivity. Qed.

Lemma cmp_zero_r_tail b : MP.nonneg b -> cmp_zero_r b = - MR.tail_compare b.
Proof.
  induction 1 as [|y b Hy _ IH]; [reflexivity|]. simpl. rewrite IH.
  unfold sgnZ, MR.zcmp. destruct (Z.compare_spec 0 y), (Z.compare_spec y 0); simpl; try lia.
Qed.

Lemma compare_nums_mv a : forall b, MP.nonneg a -> MP.nonneg b -> compare_nums a b = MR.mv_compare a b.
Proof.
  induction a as [|x a IH]; intros b Ha Hb.
  - destruct b as [|y b]; [reflexivity|]. apply (cmp_zero_r_tail (y :: b)); auto.
  - destruct b as [|y b]; [apply (cmp_zero_l_tail (x :: a))|].
    inversion Ha; inversion Hb; subst. simpl. rewrite IH by auto. reflexivity.
Qed.

Lemma trim_strip l : PS.trim l = MP.strip l.
Proof.
  induction l as [|x l IH]; [reflexivity|]. simpl. rewrite IH.
  destruct (MP.strip l), (x =? 0); reflexivity.
Qed.

Lemma tuple_lex a : forall b, PS.tuple_compare a b = list_lex cmpZ (-1) a b.
Proof. induction a as [|x a IH]; intros [|y b]; try reflexivity; simpl; rewrite IH; reflexivity. Qed.

(* zero-padded comparison of the number lists = PEP 440 order of the two final releases *)
Lemma compare_nums_pep a b : MP.nonneg a -> MP.nonneg b ->
  compare_nums a b = PS.pver_compare (PS.final a) (PS.final b).
Proof.
  intros Ha Hb. unfold PS.pver_compare, PS.final. cbn [PS.pv_release PS.suffix PS.pv_pre PS.pv_post PS.pv_dev].
  rewrite !trim_strip, tuple_lex, (MP.lex_strip_mv a b Ha Hb), (compare_nums_mv a b Ha Hb).
  destruct (MR.mv_compare a b =? 0) eqn:E; [|reflexivity]. apply Z.eqb_eq in E. rewrite E. reflexivity.
Qed.

(* ---------------------------------------------------------------- versions of the domain *)
Definition mk3p (str : bytes) (M m p : Z) : version :=
  {| v_sys := SPyPI; v_user_num_count := 3; v_is_prerelease := false; v_str := str;
     v_num := [M; m; p]; v_pre := []; v_build := []; v_ext := Pep440Ext None |}.

Definition fin (x : Z) : Prop := 0 <= x < infinity.

(* a candidate: a final release (no details in the extension object) with the release numbers U,
   not all zero *)
Record pcand (u : version) (U : list Z) : Prop := {
  pc_sys : v_sys u = SPyPI;
  pc_ext : v_ext u = Pep440Ext None;
  pc_num : v_num u = U;
  pc_pre : v_pre u = [];
  pc_rel : v_is_prerelease u = false;
  pc_fin : Forall fin U;
  pc_nz : exists x, In x U /\ x <> 0 }.

Lemma fin_nonneg U : Forall fin U -> MP.nonneg U.
Proof. apply Forall_impl. unfold fin. intros; lia. Qed.

Definition dd (U : list Z) (M m p : Z) : Z := PS.pver_compare (PS.final U) (PS.final [M; m; p]).

Lemma nn3 M m p : fin M -> fin m -> fin p -> MP.nonneg [M; m; p].
Proof. unfold fin. intros. repeat constructor; lia. Qed.

Lemma compare_cand_l u U s M m p : pcand u U -> fin M -> fin m -> fin p ->
  compare u (mk3p s M m p) = Ok (dd U M m p).
Proof.
  intros C HM Hm Hp. unfold compare. rewrite (pc_sys _ _ C), (pc_ext _ _ C), (pc_num _ _ C). cbn -[compare_nums].
  unfold pep_compare. cbn -[compare_nums]. unfold dd. rewrite <- (compare_nums_pep U [M; m; p] (fin_nonneg _ (pc_fin _ _ C)) (nn3 _ _ _ HM Hm Hp)).
  destruct (compare_nums U [M; m; p] =? 0) eqn:E; cbn -[compare_nums]; [apply Z.eqb_eq in E; rewrite E|]; reflexivity.
Qed.

Lemma compare_nums_antisym a b : MP.nonneg a -> MP.nonneg b -> compare_nums b a = - compare_nums a b.
Proof. intros Ha Hb. rewrite !compare_nums_mv by auto. apply MP.mv_antisym. Qed.

Lemma compare_cand_r u U s M m p : pcand u U -> fin M -> fin m -> fin p ->
  compare (mk3p s M m p) u = Ok (- dd U M m p).
Proof.
  intros C HM Hm Hp. unfold compare. rewrite (pc_sys _ _ C), (pc_ext _ _ C), (pc_num _ _ C). cbn -[compare_nums].
  unfold pep_compare. cbn -[compare_nums]. unfold dd. rewrite <- (compare_nums_pep U [M; m; p] (fin_nonneg _ (pc_fin _ _ C)) (nn3 _ _ _ HM Hm Hp)).
  rewrite (compare_nums_antisym U [M; m; p] (fin_nonneg _ (pc_fin _ _ C)) (nn3 _ _ _ HM Hm Hp)).
  destruct (- compare_nums U [M; m; p] =? 0) eqn:E; cbn -[compare_nums]; [apply Z.eqb_eq in E; rewrite E|]; reflexivity.
Qed.

(* the candidate is below infinity.infinity.infinity and above 0.0.0 *)
Lemma inf_above U : Forall fin U -> U <> [] -> compare_nums [infinity; infinity; infinity] U = 1.
Proof.
  intros F N. destruct U as [|x U]; [congruence|]. inversion F as [|? ? Hx _]; subst. unfold fin in Hx.
  simpl. unfold sgnZ. destruct (Z.compare_spec infinity x); try lia. reflexivity.
Qed.

Lemma tail_pos U : MP.nonneg U -> (exists x, In x U /\ x <> 0) -> MR.tail_compare U = 1.
Proof.
  induction 1 as [|y U Hy HU IH]; intros (x & I & N); [destruct I|]. simpl.
  unfold MR.zcmp. destruct (Z.compare_spec y 0); simpl; try lia.
  apply IH. destruct I as [->|I]; [congruence|]. exists x. auto.
Qed.

Lemma mv_zeros U : forall Z0, Forall (fun z => z = 0) Z0 -> MP.nonneg U -> (exists x, In x U /\ x <> 0) ->
  MR.mv_compare U Z0 = 1.
Proof.
  induction U as [|y U IH]; intros Z0 F H (x & I & N); [destruct I|].
  destruct Z0 as [|z Z0]; [apply (tail_pos (y :: U)); auto; exists x; auto|].
  inversion F; inversion H; subst. simpl.
  unfold MR.zcmp. destruct (Z.compare_spec y 0); simpl; try lia.
  apply IH; auto. destruct I as [->|I]; [congruence|]. exists x. auto.
Qed.

Lemma zero_below U : Forall fin U -> (exists x, In x U /\ x <> 0) -> compare_nums U [0; 0; 0] = 1.
Proof.
  intros F N. rewrite compare_nums_mv by (auto using fin_nonneg; repeat constructor; lia).
  apply mv_zeros; auto using fin_nonneg.
Qed.

Lemma cand_nonnil u U : pcand u U -> U <> [].
Proof. intros C E. destruct (pc_nz _ _ C) as (x & I & _). rewrite E in I. destruct I. Qed.

(* ---------------------------------------------------------------- matchVersion on a final candidate *)
(* none of the PyPI special cases of matchVersion applies: the candidate is no prerelease, no dev
   release, no post release, has no local label *)
Lemma match_span_final u U pre s : pcand u U -> match_span u pre s = span_contains s u pre.
Proof.
  intros C. unfold match_span, is_pypi_dev, is_pypi_post, is_pypi_local, pep_details.
  rewrite (pc_sys _ _ C), (pc_ext _ _ C), (pc_rel _ _ C). cbn.
  destruct (sp_rank s), pre; reflexivity.
Qed.

(* ---------------------------------------------------------------- the operators *)
Definition spec_of (op : PS.pop) (M m p : Z) (prefix : bool) (rel : list Z) : PS.spec :=
  {| PS.sp_op := op; PS.sp_ver := PS.final rel; PS.sp_prefix := prefix |}.

Definition span_sound (r : res span) (sp : PS.spec) : Prop :=
  exists s, r = Ok s /\ forall u U pre, pcand u U -> match_span u pre s = Ok (PS.contains1 sp U).

Ltac zcases :=
  repeat (match goal with
          | |- context [?a =? ?b] => destruct (Z.eqb_spec a b)
          | |- context [?a <? ?b] => destruct (Z.ltb_spec a b)
          | |- context [?a <=? ?b] => destruct (Z.leb_spec a b)
          end; cbn [andb orb negb bind]); try reflexivity; try lia.

Section Ops.
Variable pv : system -> bool -> bytes -> res parse_out.
Variables (str : bytes) (M m p : Z).
Hypothesis HM : fin M.
Hypothesis Hm : fin m.
Hypothesis Hp : fin p.

Notation lo := (mk3p str M m p).
Notation inf3 := (mk3p str infinity infinity infinity).

Lemma W_lo : is_wildcard_v lo = false.
Proof.
  unfold is_wildcard_v, is_wildcard, wildcard, fin in *. cbn.
  rewrite !(proj2 (Z.eqb_neq _ (-1))) by lia. reflexivity.
Qed.

Lemma set_tail_lo : set_tail lo infinity infinity = lo.
Proof.
  unfold set_tail, fin in *. cbn [v_num mk3p at_least3 length Nat.max pad_to Nat.sub repeat app fill_from].
  rewrite !(proj2 (Z.eqb_neq _ infinity)) by lia. reflexivity.
Qed.

Lemma nowild3 s a b c : 0 <= a -> 0 <= b -> 0 <= c -> nowild (mk3p s a b c) = true.
Proof. intros. unfold nowild. cbn. rewrite !(proj2 (Z.leb_le 0 _)) by lia. reflexivity. Qed.

Lemma compare33 s1 s2 a b c d e f : compare (mk3p s1 a b c) (mk3p s2 d e f) = Ok (compare_nums [a; b; c] [d; e; f]).
Proof.
  unfold compare. cbn -[compare_nums]. unfold pep_compare. cbn -[compare_nums].
  destruct (compare_nums [a; b; c] [d; e; f] =? 0) eqn:E; cbn -[compare_nums]; [apply Z.eqb_eq in E; rewrite E|]; reflexivity.
Qed.

(* newSpan on two final releases with three numbers *)
Lemma new_span_3 s1 s2 a b c d e f mo xo : 0 <= a -> 0 <= b -> 0 <= c -> 0 <= d -> 0 <= e -> 0 <= f ->
  new_span (mk3p s1 a b c) mo (mk3p s2 d e f) xo =
  (let k := compare_nums [a; b; c] [d; e; f] in
   if k =? 0 then Ok {| sp_rank := RUnit; sp_min_open := mo; sp_max_open := xo;
                        sp_min := Some (mk3p s1 a b c); sp_max := Some (mk3p s1 a b c) |}
   else if k <? 0 then Ok {| sp_rank := RVector; sp_min_open := mo; sp_max_open := xo;
                             sp_min := Some (mk3p s1 a b c); sp_max := Some (mk3p s2 d e f) |}
   else Err E_max_less_min).
Proof.
  intros. rewrite (MP.new_span_cmp _ mo _ xo (nowild3 s1 a b c ltac:(lia) ltac:(lia) ltac:(lia)) (nowild3 s2 d e f ltac:(lia) ltac:(lia) ltac:(lia))).
  change (vset_build (mk3p s1 a b c) []) with (mk3p s1 a b c). change (vset_build (mk3p s2 d e f) []) with (mk3p s2 d e f).
  rewrite compare33. reflexivity.
Qed.

Lemma lt_inf a b c : a < infinity -> 0 <= a -> compare_nums [a; b; c] [infinity; infinity; infinity] = -1.
Proof. intros. simpl. unfold sgnZ. destruct (Z.compare_spec a infinity); try lia. reflexivity. Qed.

(* membership of a candidate in [lo, inf] / (lo, inf] *)
Lemma in_from u U pre mo : pcand u U ->
  match_span u pre {| sp_rank := RVector; sp_min_open := mo; sp_max_open := false;
                      sp_min := Some lo; sp_max := Some inf3 |} =
  Ok (negb (((dd U M m p =? 0) && mo) || (dd U M m p <? 0))).
Proof.
  intros C. rewrite (match_span_final u U pre _ C). unfold span_contains.
  cbn [sp_rank sp_min sp_max sp_min_open sp_max_open compare_opt].
  rewrite (compare_cand_l u U str M m p C HM Hm Hp). cbn [bind].
  assert (I : compare inf3 u = Ok 1).
  { unfold compare. rewrite (pc_sys _ _ C), (pc_ext _ _ C), (pc_num _ _ C). cbn -[compare_nums]. unfold pep_compare. cbn -[compare_nums].
    rewrite (inf_above U (pc_fin _ _ C) (cand_nonnil _ _ C)). reflexivity. }
  rewrite I. rewrite (pc_sys _ _ C), (pc_rel _ _ C).
  destruct (((dd U M m p =? 0) && mo) || (dd U M m p <? 0)); cbn; destruct pre; reflexivity.
Qed.

(* >=M.m.p *)
Theorem ge_sound : span_sound (op_version_to_span pv go_tokGreaterEqual lo) (spec_of PS.PGe M m p false [M; m; p]).
Proof.
  unfold span_sound, op_version_to_span. rewrite W_lo. cbn [andb].
  change (v_sys lo) with SPyPI. change (v_num lo) with [M; m; p].
  unfold go_tokEmpty, go_tokEqual, go_tokGreater, go_tokGreaterEqual.
  cbn [sys_eqb sys_index Z.eqb Pos.eqb length Nat.ltb Nat.leb has_pre v_pre mk3p andb negb orb].
  unfold op_ge. change (v_sys lo) with SPyPI. cbn [sys_eqb sys_index Z.eqb Pos.eqb andb bind].
  unfold op_tail. rewrite set_tail_lo. change (v_sys lo) with SPyPI.
  unfold needs_rebuild. cbn [sys_eqb sys_index Z.eqb Pos.eqb orb].
  change (set_tail (vset_build (clear_pre (vset_num lo (map (fun _ : Z => infinity) (v_num lo)))) []) infinity infinity)
    with inf3.
  unfold rebuild_extension. cbn [ext_empty v_ext mk3p bind].
  unfold fin in *. rewrite new_span_3 by (unfold infinity; lia). rewrite lt_inf by lia. cbn [Z.eqb Z.ltb Z.compare].
  eexists. split; [reflexivity|]. intros u U pre C. rewrite (in_from u U pre false C).
  unfold PS.contains1, spec_of. cbn [PS.sp_op PS.sp_ver]. fold (dd U M m p). f_equal. zcases.
Qed.

(* >M.m.p : PyPI keeps the bound and opens it *)
Theorem gt_sound : span_sound (op_version_to_span pv go_tokGreater lo) (spec_of PS.PGt M m p false [M; m; p]).
Proof.
  unfold span_sound, op_version_to_span. rewrite W_lo. cbn [andb].
  change (v_sys lo) with SPyPI. change (v_num lo) with [M; m; p].
  unfold go_tokEmpty, go_tokEqual, go_tokGreater, go_tokGreaterEqual.
  cbn [sys_eqb sys_index Z.eqb Pos.eqb length Nat.ltb Nat.leb has_pre v_pre mk3p andb negb orb].
  unfold all_v, wildcard, fin in *. cbn [v_num mk3p forallb].
  assert (A1 : (M =? -1) = false) by (apply Z.eqb_neq; lia). rewrite A1. cbn [andb].
  unfold is_rubygems_or_pypi. cbn [sys_eqb sys_index Z.eqb Pos.eqb orb bind].
  change (vset_build lo []) with lo.
  unfold op_ge. change (v_sys lo) with SPyPI. cbn [sys_eqb sys_index Z.eqb Pos.eqb andb bind].
  unfold op_tail. rewrite set_tail_lo. change (v_sys lo) with SPyPI.
  unfold needs_rebuild. cbn [sys_eqb sys_index Z.eqb Pos.eqb orb].
  change (set_tail (vset_build (clear_pre (vset_num lo (map (fun _ : Z => infinity) (v_num lo)))) []) infinity infinity)
    with inf3.
  unfold rebuild_extension. cbn [ext_empty v_ext mk3p bind].
  rewrite new_span_3 by (unfold infinity; lia). rewrite lt_inf by lia. cbn [Z.eqb Z.ltb Z.compare].
  eexists. split; [reflexivity|]. intros u U pre C. rewrite (in_from u U pre true C).
  unfold PS.contains1, spec_of. cbn [PS.sp_op PS.sp_ver]. fold (dd U M m p). f_equal. zcases.
Qed.

Lemma cn_refl a b c : compare_nums [a; b; c] [a; b; c] = 0.
Proof. simpl. unfold sgnZ. rewrite !Z.compare_refl. reflexivity. Qed.

(* ==M.m.p : the single version *)
Theorem eq_sound : span_sound (op_version_to_span pv go_tokEqual lo) (spec_of PS.PEq M m p false [M; m; p]).
Proof.
  unfold span_sound, op_version_to_span. rewrite W_lo. cbn [andb].
  change (v_sys lo) with SPyPI. change (v_num lo) with [M; m; p].
  unfold go_tokEmpty, go_tokEqual.
  cbn [sys_eqb sys_index Z.eqb Pos.eqb length Nat.ltb Nat.leb has_pre v_pre mk3p andb negb orb].
  rewrite W_lo. cbn [negb]. unfold fin in *.
  unfold new_span_same.
  assert (W : nowild lo = true) by (apply nowild3; lia).
  rewrite (major_nowild _ W), (set_tail_nowild _ 0 W (or_introl eq_refl)).
  rewrite new_span_3 by lia. rewrite cn_refl. cbn [Z.eqb].
  eexists. split; [reflexivity|]. intros u U pre C.
  rewrite (match_span_final u U pre _ C). unfold span_contains. cbn [sp_rank sp_min compare_opt].
  rewrite (compare_cand_r u U str M m p C) by (unfold fin; lia). cbn [bind].
  unfold PS.contains1, spec_of. cbn [PS.sp_op PS.sp_ver PS.sp_prefix]. fold (dd U M m p). f_equal. zcases.
Qed.

(* the lower end of < and <= is MinVersion = 0.0.0.dev0, whose extension object is rebuilt from
   its canonical text: the one place where these operators consult the version parser *)
Definition min_reread : Prop :=
  pv SPyPI false (canon true pypi_min_version) = Ok {| po_v := Some pypi_min_version; po_err := false |}.

Lemma rebuild_min : min_reread -> rebuild_extension pv pypi_min_version = Ok pypi_min_version.
Proof. intros H. unfold rebuild_extension. cbn [ext_empty v_ext pypi_min_version pep440_is_zero]. cbn -[canon]. rewrite H. reflexivity. Qed.

Lemma compare_min_lo : (M <> 0 \/ m <> 0 \/ p <> 0) -> compare pypi_min_version lo = Ok (-1).
Proof.
  intros NZ. unfold compare. cbn -[compare_nums]. unfold pep_compare. cbn -[compare_nums].
  assert (E : compare_nums [0; 0; 0] [M; m; p] = -1).
  { assert (F0 : fin 0) by (unfold fin, infinity; lia).
    rewrite (compare_nums_antisym [M; m; p] [0; 0; 0] (nn3 _ _ _ HM Hm Hp) (nn3 _ _ _ F0 F0 F0)).
    assert (F : Forall fin [M; m; p]) by (constructor; [exact HM|constructor; [exact Hm|constructor; [exact Hp|constructor]]]).
    assert (X : exists x, In x [M; m; p] /\ x <> 0).
    { destruct NZ as [N|[N|N]]; [exists M | exists m | exists p]; simpl; auto. }
    rewrite (zero_below [M; m; p] F X). reflexivity. }
  rewrite E. reflexivity.
Qed.

Lemma compare_cand_min u U : pcand u U -> compare u pypi_min_version = Ok 1.
Proof.
  intros C. unfold compare. rewrite (pc_sys _ _ C), (pc_ext _ _ C), (pc_num _ _ C). cbn -[compare_nums].
  unfold pep_compare. cbn -[compare_nums]. rewrite (zero_below U (pc_fin _ _ C) (pc_nz _ _ C)). reflexivity.
Qed.

Lemma in_upto u U pre xo : pcand u U ->
  match_span u pre {| sp_rank := RVector; sp_min_open := false; sp_max_open := xo;
                      sp_min := Some pypi_min_version; sp_max := Some lo |} =
  Ok (negb (((dd U M m p =? 0) && xo) || (0 <? dd U M m p))).
Proof.
  intros C. rewrite (match_span_final u U pre _ C). unfold span_contains.
  cbn [sp_rank sp_min sp_max sp_min_open sp_max_open compare_opt].
  rewrite (compare_cand_min u U C). cbn [bind Z.eqb Z.ltb Z.compare andb orb].
  rewrite (compare_cand_r u U str M m p C HM Hm Hp). cbn [bind].
  rewrite (pc_sys _ _ C), (pc_rel _ _ C). cbn [sys_eqb sys_index Z.eqb Pos.eqb negb andb].
  destruct xo, pre; zcases.
Qed.

Lemma new_span_min xo : (M <> 0 \/ m <> 0 \/ p <> 0) ->
  new_span pypi_min_version false lo xo =
  Ok {| sp_rank := RVector; sp_min_open := false; sp_max_open := xo; sp_min := Some pypi_min_version; sp_max := Some lo |}.
Proof.
  intros NZ. unfold fin in *. rewrite (MP.new_span_cmp pypi_min_version false lo xo eq_refl (nowild3 str M m p ltac:(lia) ltac:(lia) ltac:(lia))).
  change (vset_build pypi_min_version []) with pypi_min_version. change (vset_build lo []) with lo.
  rewrite (compare_min_lo NZ). reflexivity.
Qed.

(* <=M.m.p *)
Theorem le_sound : min_reread -> (M <> 0 \/ m <> 0 \/ p <> 0) ->
  span_sound (op_version_to_span pv go_tokLessEqual lo) (spec_of PS.PLe M m p false [M; m; p]).
Proof.
  intros R NZ. unfold span_sound, op_version_to_span. rewrite W_lo. cbn [andb].
  change (v_sys lo) with SPyPI. change (v_num lo) with [M; m; p].
  unfold go_tokEmpty, go_tokEqual, go_tokGreater, go_tokGreaterEqual, go_tokLess, go_tokLessEqual.
  cbn [sys_eqb sys_index Z.eqb Pos.eqb length Nat.ltb Nat.leb has_pre v_pre mk3p andb negb orb].
  unfold op_tail. cbn [min_version]. rewrite set_tail_lo.
  change (set_tail pypi_min_version infinity infinity) with pypi_min_version.
  change (v_sys pypi_min_version) with SPyPI. unfold needs_rebuild. cbn [sys_eqb sys_index Z.eqb Pos.eqb orb].
  rewrite (rebuild_min R). cbn [bind].
  unfold rebuild_extension at 1. cbn [ext_empty v_ext mk3p bind].
  rewrite (new_span_min false NZ).
  eexists. split; [reflexivity|]. intros u U pre C. rewrite (in_upto u U pre false C).
  unfold PS.contains1, spec_of. cbn [PS.sp_op PS.sp_ver]. fold (dd U M m p). f_equal. zcases.
Qed.

(* <M.m.p *)
Theorem lt_sound : min_reread -> (M <> 0 \/ m <> 0 \/ p <> 0) ->
  span_sound (op_version_to_span pv go_tokLess lo) (spec_of PS.PLt M m p false [M; m; p]).
Proof.
  intros R NZ. unfold span_sound, op_version_to_span. rewrite W_lo. cbn [andb].
  change (v_sys lo) with SPyPI. change (v_num lo) with [M; m; p].
  unfold go_tokEmpty, go_tokEqual, go_tokGreater, go_tokGreaterEqual, go_tokLess, go_tokLessEqual.
  cbn [sys_eqb sys_index Z.eqb Pos.eqb length Nat.ltb Nat.leb has_pre v_pre mk3p andb negb orb].
  unfold all_v, wildcard, fin in *. cbn [v_num mk3p forallb].
  assert (A1 : (M =? -1) = false) by (apply Z.eqb_neq; lia). rewrite A1. cbn [andb orb].
  assert (A0 : (M =? 0) && ((m =? 0) && ((p =? 0) && true)) = false).
  { destruct (Z.eqb_spec M 0), (Z.eqb_spec m 0), (Z.eqb_spec p 0); simpl; auto. lia. }
  rewrite A0.
  assert (Hm1 : (m =? -1) = false) by (apply Z.eqb_neq; lia).
  assert (Hp1 : (p =? -1) = false) by (apply Z.eqb_neq; lia).
  cbn [map v_num mk3p vset_num vset_build]. unfold wildcard. rewrite A1, Hm1, Hp1.
  change (vset_build (vset_num lo [M; m; p]) []) with lo.
  unfold op_tail. cbn [min_version]. rewrite set_tail_lo.
  change (set_tail pypi_min_version infinity infinity) with pypi_min_version.
  change (v_sys pypi_min_version) with SPyPI. unfold needs_rebuild. cbn [sys_eqb sys_index Z.eqb Pos.eqb orb].
  rewrite (rebuild_min R). cbn [bind].
  unfold rebuild_extension at 1. cbn [ext_empty v_ext mk3p bind].
  rewrite (new_span_min true NZ).
  eexists. split; [reflexivity|]. intros u U pre C. rewrite (in_upto u U pre true C).
  unfold PS.contains1, spec_of. cbn [PS.sp_op PS.sp_ver]. fold (dd U M m p). f_equal. zcases.
Qed.

(* !=M.m.p : excludeToSpans gives [0.0.0, M.m.p) and (M.m.p, inf.inf.inf], whose outer ends are
   fresh versions without extension object *)
Lemma compare_zero_lo : (M <> 0 \/ m <> 0 \/ p <> 0) -> compare (zero_version SPyPI) lo = Ok (-1).
Proof.
  intros NZ. unfold compare. cbn -[compare_nums]. unfold generic_compare. cbn -[compare_nums].
  assert (E : compare_nums [0; 0; 0] [M; m; p] = -1).
  { assert (F0 : fin 0) by (unfold fin, infinity; lia).
    rewrite (compare_nums_antisym [M; m; p] [0; 0; 0] (nn3 _ _ _ HM Hm Hp) (nn3 _ _ _ F0 F0 F0)).
    assert (F : Forall fin [M; m; p]) by (constructor; [exact HM|constructor; [exact Hm|constructor; [exact Hp|constructor]]]).
    assert (X : exists x, In x [M; m; p] /\ x <> 0).
    { destruct NZ as [N|[N|N]]; [exists M | exists m | exists p]; simpl; auto. }
    rewrite (zero_below [M; m; p] F X). reflexivity. }
  rewrite E. reflexivity.
Qed.

Lemma compare_lo_inf : compare lo (inf_version SPyPI) = Ok (-1).
Proof.
  unfold compare. cbn -[compare_nums]. unfold generic_compare. cbn -[compare_nums].
  unfold fin in *. rewrite lt_inf by lia. reflexivity.
Qed.

Lemma compare_cand_zero u U : pcand u U -> compare u (zero_version SPyPI) = Ok 1.
Proof.
  intros C. unfold compare. rewrite (pc_sys _ _ C), (pc_ext _ _ C). cbn -[compare_nums].
  unfold generic_compare. rewrite (pc_num _ _ C), (pc_pre _ _ C). cbn -[compare_nums].
  rewrite (zero_below U (pc_fin _ _ C) (pc_nz _ _ C)). reflexivity.
Qed.

Lemma compare_inf_cand u U : pcand u U -> compare (inf_version SPyPI) u = Ok 1.
Proof.
  intros C. unfold compare. rewrite (pc_sys _ _ C), (pc_ext _ _ C). cbn -[compare_nums].
  unfold generic_compare. rewrite (pc_num _ _ C), (pc_pre _ _ C). cbn -[compare_nums].
  rewrite (inf_above U (pc_fin _ _ C) (cand_nonnil _ _ C)). reflexivity.
Qed.

Theorem ne_sound : (M <> 0 \/ m <> 0 \/ p <> 0) ->
  exists s1 s2, exclude_to_spans pv lo = Ok (s1, s2) /\
    forall u U pre, pcand u U ->
      match_spans u pre [s1; s2] = Ok (PS.contains1 (spec_of PS.PNe M m p false [M; m; p]) U).
Proof.
  intros NZ. unfold exclude_to_spans. cbn [v_num mk3p rev app].
  unfold is_wild_or_inf, wildcard, fin in *. cbn [existsb].
  rewrite !(proj2 (Z.eqb_neq _ (-1))) by lia. rewrite !(proj2 (Z.eqb_neq _ infinity)) by lia. cbn [orb bind].
  assert (W : nowild lo = true) by (apply nowild3; lia).
  change (set_tail lo (-1) infinity) with (set_tail lo wildcard infinity).
  rewrite (set_tail_nowild _ infinity W (or_intror eq_refl)). change (vset_build lo []) with lo.
  change (v_sys lo) with SPyPI.
  rewrite (MP.new_span_cmp (zero_version SPyPI) false lo true eq_refl W).
  change (vset_build (zero_version SPyPI) []) with (zero_version SPyPI). change (vset_build lo []) with lo.
  rewrite (compare_zero_lo NZ). cbn [bind Z.eqb Z.ltb Z.compare].
  rewrite (MP.new_span_cmp lo true (inf_version SPyPI) false W eq_refl).
  change (vset_build (inf_version SPyPI) []) with (inf_version SPyPI). change (vset_build lo []) with lo.
  rewrite compare_lo_inf. cbn [bind Z.eqb Z.ltb Z.compare].
  eexists. eexists. split; [reflexivity|]. intros u U pre C.
  cbn [match_spans]. rewrite !(match_span_final u U pre _ C). unfold span_contains.
  cbn [sp_rank sp_min sp_max sp_min_open sp_max_open compare_opt].
  rewrite (compare_cand_zero u U C), (compare_inf_cand u U C).
  rewrite (compare_cand_l u U str M m p C) by (unfold fin; lia).
  rewrite (compare_cand_r u U str M m p C) by (unfold fin; lia).
  rewrite (pc_sys _ _ C), (pc_rel _ _ C). cbn [bind Z.eqb Z.ltb Z.compare andb orb sys_eqb sys_index Pos.eqb negb].
  unfold PS.contains1, spec_of. cbn [PS.sp_op PS.sp_ver PS.sp_prefix]. fold (dd U M m p).
  destruct pre; zcases.
Qed.

(* !=0.0.0 is outside: the first span collapses to the unit span {0.0.0}, which ignores its open
   end (class F-C03-1a: PyPI `!=0.0` matches 0.0); no candidate of the domain is concerned, the
   candidates being non-zero *)
Theorem ne_zero_unit :
  new_span (zero_version SPyPI) false (mk3p str 0 0 0) true =
  Ok {| sp_rank := RUnit; sp_min_open := false; sp_max_open := true;
        sp_min := Some (zero_version SPyPI); sp_max := Some (zero_version SPyPI) |}.
Proof. reflexivity. Qed.
End Ops.

(* ================================================================ ~=M.m.p, ==M.m.*, !=M.m.* *)
Definition cn := compare_nums.

Lemma cand_raw_l u U s a b c : pcand u U -> compare u (mk3p s a b c) = Ok (compare_nums U [a; b; c]).
Proof.
  intros C. unfold compare. rewrite (pc_sys _ _ C), (pc_ext _ _ C), (pc_num _ _ C). cbn -[compare_nums].
  unfold pep_compare. cbn -[compare_nums].
  destruct (compare_nums U [a; b; c] =? 0) eqn:E; cbn -[compare_nums]; [apply Z.eqb_eq in E; rewrite E|]; reflexivity.
Qed.

Lemma cand_raw_r u U s a b c : pcand u U -> compare (mk3p s a b c) u = Ok (compare_nums [a; b; c] U).
Proof.
  intros C. unfold compare. rewrite (pc_sys _ _ C), (pc_ext _ _ C), (pc_num _ _ C). cbn -[compare_nums].
  unfold pep_compare. cbn -[compare_nums].
  destruct (compare_nums [a; b; c] U =? 0) eqn:E; cbn -[compare_nums]; [apply Z.eqb_eq in E; rewrite E|]; reflexivity.
Qed.

Lemma inf1 rest : Forall fin rest -> compare_nums [infinity] rest = 1.
Proof.
  intros F. destruct rest as [|z rest]; [reflexivity|]. inversion F as [|? ? Hz _]; subst. unfold fin in Hz.
  simpl. unfold sgnZ. destruct (Z.compare_spec infinity z); try lia. reflexivity.
Qed.

Lemma rest0 rest : Forall fin rest -> 0 <= compare_nums rest [0].
Proof.
  intros F. assert (N0 : MP.nonneg [0]) by (repeat constructor; lia).
  rewrite compare_nums_mv by (auto using fin_nonneg).
  pose proof (MP.zero_below rest (fin_nonneg _ F)). pose proof (MP.mv_antisym [0] rest). lia.
Qed.

Ltac sgn_cases :=
  unfold sgnZ;
  repeat match goal with
         | |- context [Z.compare ?a ?b] => destruct (Z.compare_spec a b)
         end; cbn [Z.eqb andb orb negb]; try lia; try reflexivity.

Lemma cn_cons x a y b : compare_nums (x :: a) (y :: b) = if sgnZ x y =? 0 then compare_nums a b else sgnZ x y.
Proof. reflexivity. Qed.

(* the arithmetic of a prefix: U starts with M.m (missing numbers read as 0) iff it lies between
   M.m.0 and M.m.infinity *)
Lemma prefix_between M m U : fin M -> fin m -> Forall fin U ->
  PS.prefix_match [M; m] U = (0 <=? compare_nums U [M; m; 0]) && (0 <=? compare_nums [M; m; infinity] U).
Proof.
  unfold fin. intros HM Hm F.
  destruct U as [|x [|y rest]].
  - cbn. sgn_cases; zcases.
  - inversion F as [|? ? Hx _]; subst. unfold fin in Hx. cbn. sgn_cases; zcases.
  - inversion F as [|? ? Hx F1]; subst. inversion F1 as [|? ? Hy F2]; subst. unfold fin in Hx, Hy.
    pose proof (rest0 rest F2) as R0. pose proof (inf1 rest F2) as RI.
    cbn [PS.prefix_match]. rewrite !cn_cons, RI.
    set (r := compare_nums rest [0]) in *. clearbody r.
    sgn_cases; zcases.
Qed.

Lemma ge_p_ge_0 M m p U : fin M -> fin m -> fin p -> Forall fin U ->
  0 <= compare_nums U [M; m; p] -> 0 <= compare_nums U [M; m; 0].
Proof.
  intros HM Hm Hp F. assert (F0 : fin 0) by (unfold fin, infinity; lia).
  rewrite !compare_nums_mv by (auto using fin_nonneg, nn3).
  destruct U as [|x [|y rest]]; unfold fin in *.
  - cbn. unfold MR.zcmp. sgn_cases.
  - inversion F; subst. cbn. unfold MR.zcmp. sgn_cases.
  - inversion F as [|? ? Hx F1]; subst. inversion F1 as [|? ? Hy F2]; subst.
    pose proof (MP.zero_below rest (fin_nonneg _ F2)) as Z0. pose proof (MP.mv_antisym [0] rest) as A0.
    cbn [MR.mv_compare]. unfold MR.zcmp.
    set (r := MR.mv_compare rest [p]). set (r0 := MR.mv_compare rest [0]) in *. clearbody r.
    sgn_cases.
Qed.

Section Ops2.
Variable pv : system -> bool -> bytes -> res parse_out.
Variables (str : bytes) (M m p : Z).
Hypothesis HM : fin M.
Hypothesis Hm : fin m.
Hypothesis Hp : fin p.

Notation lo := (mk3p str M m p).

Lemma cn_upper a b c : c < infinity -> compare_nums [a; b; c] [a; b; infinity] = -1.
Proof.
  intros. rewrite !cn_cons. unfold sgnZ. rewrite !Z.compare_refl. cbn [Z.eqb].
  destruct (Z.compare_spec c infinity); try lia. reflexivity.
Qed.

Lemma in_between u U pre s1 s2 lowp : pcand u U ->
  match_span u pre {| sp_rank := RVector; sp_min_open := false; sp_max_open := false;
                      sp_min := Some (mk3p s1 M m lowp); sp_max := Some (mk3p s2 M m infinity) |} =
  Ok ((0 <=? compare_nums U [M; m; lowp]) && (0 <=? compare_nums [M; m; infinity] U)).
Proof.
  intros C. rewrite (match_span_final u U pre _ C). unfold span_contains.
  cbn [sp_rank sp_min sp_max sp_min_open sp_max_open compare_opt].
  rewrite (cand_raw_l u U s1 M m lowp C). cbn [bind].
  rewrite (cand_raw_r u U s2 M m infinity C).
  rewrite (pc_sys _ _ C), (pc_rel _ _ C). cbn [andb orb sys_eqb sys_index Z.eqb Pos.eqb negb].
  destruct pre; zcases.
Qed.

(* ~=M.m.p : [M.m.p, M.m.inf] ; packaging: >=M.m.p together with ==M.m.* *)
Theorem compat_sound : span_sound (op_version_to_span pv go_tokBacon lo) (spec_of PS.PCompat M m p false [M; m; p]).
Proof.
  unfold span_sound, op_version_to_span. rewrite (W_lo str M m p HM Hm Hp). cbn [andb].
  change (v_sys lo) with SPyPI. change (v_num lo) with [M; m; p].
  unfold go_tokEmpty, go_tokEqual, go_tokGreater, go_tokGreaterEqual, go_tokLess, go_tokLessEqual,
         go_tokCaret, go_tokTilde, go_tokBacon.
  cbn [sys_eqb sys_index Z.eqb Pos.eqb length Nat.ltb Nat.leb has_pre v_pre mk3p andb negb orb].
  unfold is_rubygems_or_pypi. cbn [sys_eqb sys_index Z.eqb Pos.eqb orb v_user_num_count mk3p Z.to_nat Pos.to_nat Pos.iter_op Nat.add].
  change (set_patch lo infinity) with (mk3p str M m infinity).
  unfold op_tail. rewrite (set_tail_lo str M m p HM Hm Hp). change (v_sys lo) with SPyPI.
  unfold needs_rebuild. cbn [sys_eqb sys_index Z.eqb Pos.eqb orb].
  unfold fin in *.
  assert (H2 : set_tail (mk3p str M m infinity) infinity infinity = mk3p str M m infinity).
  { unfold set_tail. cbn [v_num mk3p at_least3 length Nat.max pad_to Nat.sub repeat app fill_from].
    rewrite !(proj2 (Z.eqb_neq _ infinity)) by lia. rewrite Z.eqb_refl. reflexivity. }
  rewrite H2. unfold rebuild_extension. cbn [ext_empty v_ext mk3p bind].
  rewrite new_span_3 by (unfold infinity; lia). rewrite cn_upper by lia. cbn [Z.eqb Z.ltb Z.compare].
  eexists. split; [reflexivity|]. intros u U pre C. rewrite (in_between u U pre str str p C).
  unfold PS.contains1, spec_of. cbn [PS.sp_op PS.sp_ver PS.pv_release PS.final removelast].
  rewrite <- (compare_nums_pep U [M; m; p] (fin_nonneg _ (pc_fin _ _ C)) (nn3 M m p HM Hm Hp)).
  rewrite (prefix_between M m U HM Hm (pc_fin _ _ C)).
  pose proof (ge_p_ge_0 M m p U HM Hm Hp (pc_fin _ _ C)) as G.
  f_equal. zcases.
Qed.
End Ops2.

(* M.m.* as the parser delivers it: three numbers, the last one the wildcard *)
Definition mk3w (str : bytes) (M m : Z) : version :=
  {| v_sys := SPyPI; v_user_num_count := 3; v_is_prerelease := false; v_str := str;
     v_num := [M; m; -1]; v_pre := []; v_build := []; v_ext := Pep440Ext None |}.

Section Prefix.
Variable pv : system -> bool -> bytes -> res parse_out.
Variables (str : bytes) (M m : Z).
Hypothesis HM : fin M.
Hypothesis Hm : fin m.

Notation w := (mk3w str M m).
Notation wlo := (mk3p str M m 0).
Notation whi := (mk3p str M m infinity).

Lemma W_w : is_wildcard_v w = true.
Proof.
  unfold is_wildcard_v, is_wildcard, wildcard, fin in *. cbn.
  rewrite !(proj2 (Z.eqb_neq _ (-1))) by lia. reflexivity.
Qed.

Lemma new_span_w mo xo :
  new_span w mo w xo = Ok {| sp_rank := RVector; sp_min_open := mo; sp_max_open := xo; sp_min := Some wlo; sp_max := Some whi |}.
Proof.
  unfold new_span, major, wildcard, fin in *. cbn [v_num mk3w get_num nth].
  assert (A1 : (M =? -1) = false) by (apply Z.eqb_neq; lia).
  assert (A2 : (m =? -1) = false) by (apply Z.eqb_neq; lia).
  rewrite A1.
  assert (T0 : set_tail w (-1) 0 = wlo).
  { unfold set_tail. cbn [v_num mk3w at_least3 length Nat.max pad_to Nat.sub repeat app fill_from]. rewrite A1, A2. reflexivity. }
  assert (TI : set_tail w (-1) infinity = whi).
  { unfold set_tail. cbn [v_num mk3w at_least3 length Nat.max pad_to Nat.sub repeat app fill_from]. rewrite A1, A2. reflexivity. }
  rewrite T0, TI. change (vset_build wlo []) with wlo. change (vset_build whi []) with whi.
  rewrite compare33, cn_upper by (unfold infinity; lia). reflexivity.
Qed.

Lemma eq_w_span typ : typ = go_tokEqual \/ typ = go_tokEmpty ->
  op_version_to_span pv typ w =
  Ok {| sp_rank := RVector; sp_min_open := false; sp_max_open := false; sp_min := Some wlo; sp_max := Some whi |}.
Proof.
  intros T. unfold op_version_to_span. rewrite W_w.
  change (v_sys w) with SPyPI. cbn [sys_eqb sys_index Z.eqb Pos.eqb negb andb].
  change (clear_pre w) with w. rewrite W_w.
  change (v_sys w) with SPyPI. change (v_num w) with [M; m; -1].
  cbn [sys_eqb sys_index Z.eqb Pos.eqb length Nat.ltb Nat.leb has_pre v_pre mk3w andb negb orb].
  destruct T as [-> | ->]; unfold go_tokEmpty, go_tokEqual; cbn [Z.eqb Pos.eqb orb andb]; apply new_span_w.
Qed.

(* ==M.m.* : [M.m.0, M.m.inf] ; packaging: the candidate, padded with zeros, starts with M.m *)
Theorem prefix_eq_sound : span_sound (op_version_to_span pv go_tokEqual w) (spec_of PS.PEq M m 0 true [M; m]).
Proof.
  unfold span_sound. rewrite (eq_w_span go_tokEqual (or_introl eq_refl)).
  eexists. split; [reflexivity|]. intros u U pre C.
  rewrite (in_between M m u U pre str str 0 C).
  unfold PS.contains1, spec_of. cbn [PS.sp_op PS.sp_ver PS.sp_prefix PS.pv_release PS.final].
  rewrite (prefix_between M m U HM Hm (pc_fin _ _ C)). reflexivity.
Qed.

Lemma compare_whi_inf : compare whi (inf_version SPyPI) = Ok (-1).
Proof.
  unfold compare. cbn -[compare_nums]. unfold generic_compare. cbn -[compare_nums].
  unfold fin in *. rewrite lt_inf by lia. reflexivity.
Qed.

(* !=M.m.* : [0.0.0, M.m.0) and (M.m.inf, inf.inf.inf]; M.m must not be 0.0 (then the first span is
   the unit span {0.0.0} with an ignored open end) *)
Theorem prefix_ne_sound : (M <> 0 \/ m <> 0) ->
  exists s1 s2, exclude_to_spans pv w = Ok (s1, s2) /\
    forall u U pre, pcand u U ->
      match_spans u pre [s1; s2] = Ok (PS.contains1 (spec_of PS.PNe M m 0 true [M; m]) U).
Proof.
  intros NZ. unfold exclude_to_spans. cbn [v_num mk3w rev app].
  unfold is_wild_or_inf, wildcard. cbn [existsb].
  assert (F0 : fin 0) by (unfold fin, infinity; lia).
  unfold fin in HM, Hm.
  rewrite !(proj2 (Z.eqb_neq M (-1))), !(proj2 (Z.eqb_neq m (-1))), !(proj2 (Z.eqb_neq M infinity)), !(proj2 (Z.eqb_neq m infinity)) by lia.
  cbn [orb Z.eqb Pos.eqb].
  change (match infinity with Z.neg q => (1 =? q)%positive | _ => false end) with false. cbv iota.
  rewrite (eq_w_span go_tokEmpty (or_intror eq_refl)). cbn [bind sp_min sp_max sp_rank opt_version].
  change (v_sys w) with SPyPI.
  assert (Wl : nowild wlo = true) by (apply nowild3; lia).
  assert (Wh : nowild whi = true) by (apply nowild3; unfold infinity; lia).
  rewrite (MP.new_span_cmp (zero_version SPyPI) false wlo true eq_refl Wl).
  change (vset_build (zero_version SPyPI) []) with (zero_version SPyPI). change (vset_build wlo []) with wlo.
  rewrite (compare_zero_lo str M m 0 HM Hm F0) by (destruct NZ; auto).
  cbn [bind Z.eqb Z.ltb Z.compare].
  rewrite (MP.new_span_cmp whi true (inf_version SPyPI) false Wh eq_refl).
  change (vset_build (inf_version SPyPI) []) with (inf_version SPyPI). change (vset_build whi []) with whi.
  rewrite compare_whi_inf. cbn [bind Z.eqb Z.ltb Z.compare].
  eexists. eexists. split; [reflexivity|]. intros u U pre C.
  cbn [match_spans]. rewrite !(match_span_final u U pre _ C). unfold span_contains.
  cbn [sp_rank sp_min sp_max sp_min_open sp_max_open compare_opt].
  rewrite (compare_cand_zero u U C), (compare_inf_cand u U C).
  rewrite (cand_raw_r u U str M m 0 C), (cand_raw_l u U str M m infinity C).
  rewrite (pc_sys _ _ C), (pc_rel _ _ C). cbn [bind Z.eqb Z.ltb Z.compare andb orb sys_eqb sys_index Pos.eqb negb].
  unfold PS.contains1, spec_of. cbn [PS.sp_op PS.sp_ver PS.sp_prefix PS.pv_release PS.final].
  rewrite (prefix_between M m U ltac:(exact HM) ltac:(exact Hm) (pc_fin _ _ C)).
  assert (NI3 : MP.nonneg [M; m; infinity]) by (repeat constructor; unfold infinity; lia).
  rewrite (compare_nums_antisym U [M; m; 0] (fin_nonneg _ (pc_fin _ _ C)) (nn3 M m 0 HM Hm F0)).
  rewrite (compare_nums_antisym U [M; m; infinity] (fin_nonneg _ (pc_fin _ _ C)) NI3).
  destruct pre; zcases.
Qed.

(* !=0.0.* : the first span is the unit span {0.0.0}; its open end is not looked at *)
Theorem prefix_ne_zero_unit s :
  new_span (zero_version SPyPI) false (mk3p s 0 0 0) true =
  Ok {| sp_rank := RUnit; sp_min_open := false; sp_max_open := true;
        sp_min := Some (zero_version SPyPI); sp_max := Some (zero_version SPyPI) |}.
Proof. reflexivity. Qed.
End Prefix.
