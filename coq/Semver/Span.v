(* Model of util/semver/span.go (span, newSpan, setTail, fill, contains, String) and of the
   small Version helpers of version.go that the interval code uses (setNum, major, clearPre,
   MinVersion, all, ...).  Definitions only.

   Go mutates *Version in place; here every helper returns the new value and callers thread
   it in the same order.  The one place where two arguments of newSpan are the SAME pointer
   is modelled by new_span_same. *)
From DepsDev Require Import Lib.Base Semver.Version Semver.Maven Semver.Gem Semver.Pep440 Semver.Compare.
Local Open Scope Z_scope.

(* error kinds (the text is never compared) *)
Definition E_generic : N := 1%N.
Definition E_max_less_min : N := 2%N.
Definition E_pre3 : N := 3%N.
Definition E_inc : N := 4%N.
Definition E_parse : N := 5%N.
Definition E_syntax : N := 6%N.

(* ---------------------------------------------------------------- record updates *)
Definition vset_num (v : version) (l : list Z) : version :=
  {| v_sys := v_sys v; v_user_num_count := v_user_num_count v; v_is_prerelease := v_is_prerelease v;
     v_str := v_str v; v_num := l; v_pre := v_pre v; v_build := v_build v; v_ext := v_ext v |}.
Definition vset_pre (v : version) (p : list bytes) : version :=
  {| v_sys := v_sys v; v_user_num_count := v_user_num_count v; v_is_prerelease := v_is_prerelease v;
     v_str := v_str v; v_num := v_num v; v_pre := p; v_build := v_build v; v_ext := v_ext v |}.
Definition vset_build (v : version) (b : bytes) : version :=
  {| v_sys := v_sys v; v_user_num_count := v_user_num_count v; v_is_prerelease := v_is_prerelease v;
     v_str := v_str v; v_num := v_num v; v_pre := v_pre v; v_build := b; v_ext := v_ext v |}.
Definition vset_ext (v : version) (e : extension) : version :=
  {| v_sys := v_sys v; v_user_num_count := v_user_num_count v; v_is_prerelease := v_is_prerelease v;
     v_str := v_str v; v_num := v_num v; v_pre := v_pre v; v_build := v_build v; v_ext := e |}.

(* ---------------------------------------------------------------- numbers *)
(* setNum: extends with zeros up to index i *)
Fixpoint list_set_pad (l : list Z) (i : nat) (val : Z) : list Z :=
  match i, l with
  | O, [] => [val]
  | O, _ :: t => val :: t
  | S i', [] => 0 :: list_set_pad [] i' val
  | S i', x :: t => x :: list_set_pad t i' val
  end.

Definition set_num (v : version) (i : nat) (val : Z) : version := vset_num v (list_set_pad (v_num v) i val).
Definition major (v : version) : Z := get_num (v_num v) 0.
Definition minor (v : version) : Z := get_num (v_num v) 1.
Definition patch (v : version) : Z := get_num (v_num v) 2.
Definition set_major (v : version) (x : Z) : version := set_num v 0 x.
Definition set_minor (v : version) (x : Z) : version := set_num v 1 x.
Definition set_patch (v : version) (x : Z) : version := set_num v 2 x.

Definition is_wildcard_v (v : version) : bool := is_wildcard (v_num v).
Definition all_v (v : version) (val : Z) : bool := forallb (fun n => n =? val) (v_num v).
Definition has_pre (v : version) : bool := match v_pre v with [] => false | _ => true end.

(* setTail(marker, fill): from the first occurrence of marker among the first
   atLeast3 numbers (missing ones read as 0) everything becomes fill; no-op when absent *)
Definition pad_to (l : list Z) (n : nat) : list Z := l ++ repeat 0 (n - length l).

Fixpoint fill_from (l : list Z) (marker fill : Z) : option (list Z) :=
  match l with
  | [] => None
  | x :: t =>
      if x =? marker then Some (repeat fill (length l))
      else match fill_from t marker fill with Some r => Some (x :: r) | None => None end
  end.

Definition set_tail (v : version) (marker fill : Z) : version :=
  match fill_from (pad_to (v_num v) (at_least3 (v_num v))) marker fill with
  | Some l => vset_num v l
  | None => v
  end.

(* fill(val): numbers missing up to three become val *)
Definition fill_v (v : version) (val : Z) : version :=
  vset_num v (v_num v ++ repeat val (3 - length (v_num v))).

(* clearPre *)
Definition clear_pre (v : version) : version :=
  let e :=
    match v_ext v with
    | Pep440Ext (Some p) =>
        Pep440Ext (Some {| p_epoch := p_epoch p; p_pre := []; p_prenum := 0; p_post := p_post p;
                           p_postnum := p_postnum p; p_dev := p_dev p; p_devnum := p_devnum p;
                           p_local := p_local p |})
    | GemExt _ => GemExt []
    | e => e
    end in
  vset_ext (vset_pre v []) e.

(* ---------------------------------------------------------------- MinVersion *)
Definition s_min_str : bytes := [48;46;48;46;48;45;48]%N.           (* 0.0.0-0 *)
Definition s_min_str_go : bytes := 118%N :: s_min_str.                (* v0.0.0-0 *)

Definition pypi_min_version : version :=
  {| v_sys := SPyPI; v_user_num_count := 3; v_is_prerelease := false;
     v_str := [48;46;48;46;48;100;101;118;48]%N; v_num := [0;0;0]; v_pre := []; v_build := [];
     v_ext := Pep440Ext (Some {| p_epoch := 0; p_pre := []; p_prenum := 0; p_post := false; p_postnum := 0;
                                 p_dev := true; p_devnum := 0; p_local := [] |}) |}.
Definition maven_min_version : version :=
  {| v_sys := SMaven; v_user_num_count := 1; v_is_prerelease := false;
     v_str := [48;46;97;108;112;104;97]%N; v_num := []; v_pre := []; v_build := [];
     v_ext := MavenExt [ {| me_sep := 0%N; me_str := [48%N]; me_int := 0 |};
                         {| me_sep := 46%N; me_str := [97;108;112;104;97]%N; me_int := 0 |} ] |}.
Definition gem_min_version : version :=
  {| v_sys := SRubyGems; v_user_num_count := 3; v_is_prerelease := false;
     v_str := [48;46;48;46;48;46;97;48]%N; v_num := [0;0;0]; v_pre := []; v_build := [];
     v_ext := GemExt [ {| ge_str := [97%N]; ge_int := 0 |} ] |}.

(* sys.MinVersion(v): the generic case overwrites v (system and userNumCount survive) *)
Definition min_version (sys : system) (v : version) : version :=
  match sys with
  | SMaven => maven_min_version
  | SPyPI => pypi_min_version
  | SRubyGems => gem_min_version
  | _ =>
      {| v_sys := v_sys v; v_user_num_count := v_user_num_count v; v_is_prerelease := false;
         v_str := if sys_eqb sys SGo then s_min_str_go else s_min_str;
         v_num := [0;0;0]; v_pre := [[48%N]]; v_build := []; v_ext := NoExt |}
  end.

Definition min_version_in_place (sys : system) : bool :=
  match sys with SMaven | SPyPI | SRubyGems => false | _ => true end.

(* ---------------------------------------------------------------- spans *)
Inductive rank := REmpty | RUnit | RVector.

Record span := { sp_rank : rank; sp_min_open : bool; sp_max_open : bool;
                 sp_min : option version; sp_max : option version }.

Definition empty_span : span :=
  {| sp_rank := REmpty; sp_min_open := false; sp_max_open := false; sp_min := None; sp_max := None |}.

Definition rank_is_empty (r : rank) : bool := match r with REmpty => true | _ => false end.

(* compare(v1, v2) on possibly nil versions *)
Definition compare_opt (a b : option version) : res Z :=
  match a, b with
  | None, None => Ok 0
  | None, Some _ => Ok (-1)
  | Some _, None => Ok 1
  | Some x, Some y => compare x y
  end.

(* newSpan(min, minOpen, max, maxOpen) for two distinct Version objects *)
Definition new_span (min : version) (min_open : bool) (max : version) (max_open : bool) : res span :=
  let min1 := if major min =? wildcard then min_version (v_sys min) min else set_tail min wildcard 0 in
  let max1 := set_tail max wildcard infinity in
  let min2 := vset_build min1 [] in
  let max2 := vset_build max1 [] in
  c <- compare min2 max2;;
  if c =? 0 then
    Ok {| sp_rank := RUnit; sp_min_open := min_open; sp_max_open := max_open; sp_min := Some min2; sp_max := Some min2 |}
  else if c <? 0 then
    Ok {| sp_rank := RVector; sp_min_open := min_open; sp_max_open := max_open; sp_min := Some min2; sp_max := Some max2 |}
  else Err E_max_less_min.

(* newSpan(v, minOpen, v, maxOpen): both arguments are the same pointer, so the edits made
   through min are seen through max *)
Definition new_span_same (v : version) (min_open max_open : bool) : res span :=
  if major v =? wildcard then
    if min_version_in_place (v_sys v) then
      let m := min_version (v_sys v) v in new_span m min_open m max_open
    else new_span v min_open v max_open          (* min is replaced by a fresh object; max is still v *)
  else
    let m := set_tail v wildcard 0 in new_span m min_open m max_open.

Definition opt_version (o : option version) : res version :=
  match o with Some v => Ok v | None => Panic PNilDeref end.

(* equalValues *)
Fixpoint equal_values (a b : list Z) : bool :=
  match a, b with
  | [], [] => true
  | x :: a', y :: b' => (x =? y) && equal_values a' b'
  | _, _ => false
  end.

(* span.contains(v, includePrerelease) *)
Definition span_contains (s : span) (v : version) (include_pre : bool) : res bool :=
  match sp_rank s with
  | REmpty => Ok false
  | RUnit => c <- compare_opt (sp_min s) (Some v);; Ok (c =? 0)
  | RVector =>
      c1 <- compare_opt (Some v) (sp_min s);;
      if ((c1 =? 0) && sp_min_open s) || (c1 <? 0) then Ok false else
      c2 <- compare_opt (sp_max s) (Some v);;
      if ((c2 =? 0) && sp_max_open s) || (c2 <? 0) then Ok false else
      if include_pre then Ok true else
      if negb (sys_eqb (v_sys v) SMaven) && v_is_prerelease v then
        mn <- opt_version (sp_min s);;
        mx <- opt_version (sp_max s);;
        r1 <- (if v_is_prerelease mn && equal_values (v_num v) (v_num mn)
               then c <- compare mn v;; Ok (c <=? 0) else Ok false);;
        if r1 then Ok true
        else if v_is_prerelease mx && equal_values (v_num v) (v_num mx) then Ok true
        else Ok false
      else Ok true
  end.

(* span.String *)
Definition s_empty_span : bytes := [60;101;109;112;116;121;62]%N.   (* <empty> *)

Definition span_string (s : span) : res bytes :=
  match sp_rank s with
  | REmpty => Ok s_empty_span
  | RUnit => mn <- opt_version (sp_min s);; Ok (canon false mn)
  | RVector =>
      mn <- opt_version (sp_min s);;
      mx <- opt_version (sp_max s);;
      Ok ((if sp_min_open s then [40%N] else [91%N]) ++ canon false mn ++ [58%N] ++ canon false mx ++
          (if sp_max_open s then [41%N] else [93%N]))
  end.
