(* Parsing what the printers print: semver.PyPI.Parse (model Pep440Parse.v) applied to a
   rendered version (canonical string of Pep440.v, normal form of Spec/Pep440Spec.v).
   Used by Properties/C10_pypi.v (re-parse, idempotence, injectivity of Canon) and by
   the acceptance clause of Properties/C02_pypi.v. *)
From Coq Require Import List ZArith NArith Lia Bool.
From DepsDev Require Import Lib.Base Lib.Order Semver.Version Semver.Pep440 Semver.Pep440Parse
  Spec.Pep440Spec Semver.Pep440Abs Semver.Pep440_proofs Semver.Pep440Parse_proofs Semver.Pep440C02_proofs
  Semver.Pep440Scan_proofs Gen.SemverTables.
Import ListNotations.
Local Open Scope Z_scope.

Local Arguments is_digit : simpl never.

(* ---------- decimal printing ---------- *)
Lemma dec_val_app x : forall y a, dec_val (x ++ y) a = dec_val y (dec_val x a).
Proof. induction x as [|c x IH]; intros y a; cbn [app dec_val]; auto. Qed.

Lemma is_digit_48_plus r : (r < 10)%N -> is_digit (48 + r) = true /\ (48 + r - 48)%N = r.
Proof.
  intros H. unfold is_digit. split; [|lia].
  apply andb_true_iff. split; apply N.leb_le; lia.
Qed.

Lemma pos_digits_unfold f n acc :
  pos_digits (S f) n acc =
  if N.eqb (n / 10) 0 then (48 + n mod 10)%N :: acc else pos_digits f (n / 10) ((48 + n mod 10)%N :: acc).
Proof. reflexivity. Qed.

Lemma pos_digits_spec fuel : forall n acc, (n < 2 ^ N.of_nat (S fuel))%N ->
  exists ds, pos_digits (S fuel) n acc = ds ++ acc /\ forallb is_digit ds = true /\ ds <> [] /\
             forall a, dec_val ds a = a * 10 ^ Z.of_nat (length ds) + Z.of_N n.
Proof.
  induction fuel as [|f IH]; intros n acc Hn.
  - (* n < 2 *)
    assert (Hn' : (n < 2)%N) by (simpl in Hn; lia).
    cbn [pos_digits]. assert (E : (n / 10 = 0)%N) by (apply N.div_small; lia). rewrite E. cbn [N.eqb].
    assert (M : (n mod 10 = n)%N) by (apply N.mod_small; lia). rewrite M.
    destruct (is_digit_48_plus n ltac:(lia)) as [D Sb].
    exists [(48 + n)%N]. repeat split; auto.
    + cbn [forallb]. rewrite D. reflexivity.
    + discriminate.
    + intros a. cbn [dec_val length]. rewrite Sb. change (10 ^ Z.of_nat 1) with 10. lia.
  - rewrite pos_digits_unfold.
    assert (R : (n mod 10 < 10)%N) by (apply N.mod_lt; lia).
    destruct (is_digit_48_plus (n mod 10) R) as [D Sb].
    destruct (N.eqb_spec (n / 10) 0) as [E|E].
    + exists [(48 + n mod 10)%N]. repeat split; auto.
      * cbn [forallb]. rewrite D. reflexivity.
      * discriminate.
      * intros a. cbn [dec_val length]. rewrite Sb. change (10 ^ Z.of_nat 1) with 10.
        assert (n mod 10 = n)%N.
        { pose proof (N.div_mod n 10 ltac:(lia)). rewrite E in H. lia. }
        rewrite H. lia.
    + assert (Hq : (n / 10 < 2 ^ N.of_nat (S f))%N).
      { replace (N.of_nat (S (S f))) with (N.succ (N.of_nat (S f))) in Hn by lia.
        rewrite N.pow_succ_r' in Hn.
        apply N.div_lt_upper_bound; lia. }
      destruct (IH (n / 10)%N ((48 + n mod 10)%N :: acc) Hq) as (ds & Eds & Dg & Ne & Val).
      exists (ds ++ [(48 + n mod 10)%N]). repeat split.
      * rewrite Eds. rewrite <- app_assoc. reflexivity.
      * rewrite forallb_app. rewrite Dg. cbn [forallb]. rewrite D. reflexivity.
      * intros X. apply app_eq_nil in X. destruct X; discriminate.
      * intros a. rewrite dec_val_app. cbn [dec_val]. rewrite Val, Sb.
        rewrite app_length. cbn [length]. rewrite Nat2Z.inj_add. change (Z.of_nat 1) with 1.
        rewrite Z.pow_add_r by lia. change (10 ^ 1) with 10.
        pose proof (N.div_mod n 10 ltac:(lia)) as DM.
        assert (Z.of_N n = 10 * Z.of_N (n / 10) + Z.of_N (n mod 10)) by lia.
        lia.
Qed.

(* strconv.Itoa of a non-negative number: digits, read back by dec_val *)
Lemma Z_to_dec_spec n : 0 <= n ->
  forallb is_digit (Z_to_dec n) = true /\ Z_to_dec n <> [] /\ dec_val (Z_to_dec n) 0 = n.
Proof.
  intros Hn. destruct n as [|p|p]; [| |lia].
  - repeat split; try reflexivity; discriminate.
  - unfold Z_to_dec, N_to_dec.
    assert (Hlt : (N.pos p < 2 ^ N.of_nat (S (N.to_nat (N.log2 (N.pos p)))))%N).
    { rewrite Nat2N.inj_succ, N2Nat.id. apply N.log2_spec. lia. }
    destruct (pos_digits_spec _ (N.pos p) [] Hlt) as (ds & E & D & Ne & V).
    rewrite E, app_nil_r. repeat split; auto. rewrite V. simpl. lia.
Qed.

Lemma sp_int_dec n : 0 <= n -> sp_int (Z_to_dec n) = n.
Proof. intros H. unfold sp_int. apply Z_to_dec_spec; auto. Qed.

(* ---------- numeric runs ---------- *)
(* s does not continue a numeric run *)
Definition nn (s : bytes) : Prop :=
  match s with [] => True | c :: _ => is_digit c = false /\ c <> 226%N end.

Lemma num_run_nn s : nn s -> num_run s = ([], s).
Proof.
  destruct s as [|c t]; [reflexivity|]. intros [D N]. cbn [num_run]. rewrite D.
  destruct t as [|c2 [|c3 t']]; auto.
  destruct (N.eqb_spec c 226); [congruence|]. reflexivity.
Qed.

Lemma num_run_digits ds : forall r, forallb is_digit ds = true -> nn r -> num_run (ds ++ r) = (ds, r).
Proof.
  induction ds as [|c ds IH]; intros r D Nr.
  - apply num_run_nn; auto.
  - cbn [forallb] in D. apply andb_true_iff in D. destruct D as [Dc Dd].
    cbn [app num_run]. rewrite Dc. rewrite (IH r Dd Nr). reflexivity.
Qed.

Lemma num_run_inf r : nn r -> num_run (s_inf ++ r) = (s_inf, r).
Proof.
  intros Nr. unfold s_inf. cbn [app num_run]. change (is_digit 226) with false. cbv iota.
  cbn [N.eqb Pos.eqb andb]. rewrite (num_run_nn r Nr). reflexivity.
Qed.

(* ---------- rendering ---------- *)
Definition s_dotpost : bytes := [46; 112; 111; 115; 116]%N.
Definition s_dotdev : bytes := [46; 100; 101; 118]%N.

Definition r_local (loc : option bytes) : bytes := match loc with Some l => 43%N :: l | None => [] end.
Definition r_dev (dev : option Z) (tl : bytes) : bytes :=
  match dev with Some n => s_dotdev ++ Z_to_dec n ++ tl | None => tl end.
Definition r_post (post : option Z) (tl : bytes) : bytes :=
  match post with Some n => s_dotpost ++ Z_to_dec n ++ tl | None => tl end.
Definition r_pre (pre : option (bytes * Z)) (tl : bytes) : bytes :=
  match pre with Some (w, n) => w ++ Z_to_dec n ++ tl | None => tl end.
Definition r_epoch (ep : Z) (tl : bytes) : bytes :=
  if ep =? 0 then tl else Z_to_dec ep ++ 33%N :: tl.

Definition r_tail pre post dev loc : bytes := r_pre pre (r_post post (r_dev dev (r_local loc))).
Definition render ep (N : bytes) pre post dev loc : bytes := r_epoch ep (N ++ r_tail pre post dev loc).

(* Go swallows one dot after the release numbers *)
Definition dd (s : bytes) : bytes := match s with c :: t => if N.eqb c 46 then t else s | [] => s end.

(* the number Go reads back from a printed number *)
Definition gv (n : Z) : Z := to_int64 (parse_uint64_go (Z_to_dec n) 0).

Lemma gv_small n : 0 <= n < two63 -> gv n = n.
Proof.
  intros H. unfold gv. destruct (Z_to_dec_spec n ltac:(lia)) as (D & Ne & V).
  rewrite parse_uint64_go_dec; auto; try lia.
  - rewrite V. apply to_int64_small; auto.
  - rewrite V. unfold two63, max_uint64 in *. lia.
Qed.

Lemma dec_head n : 0 <= n -> exists d0 ds, Z_to_dec n = d0 :: ds /\ is_digit d0 = true.
Proof.
  intros H. destruct (Z_to_dec_spec n H) as (D & Ne & _).
  destruct (Z_to_dec n) as [|d0 ds]; [congruence|]. exists d0, ds. split; auto.
  cbn [forallb] in D. apply andb_true_iff in D. tauto.
Qed.

Lemma digit_allow_sep d t : is_digit d = true -> allow_sep (d :: t) = d :: t.
Proof.
  intros H. destruct (digit_not_alpha d H) as [_ Hs]. unfold allow_sep. unfold sp_sep in Hs. rewrite Hs. reflexivity.
Qed.

(* pep440Extension.number on a printed number followed by something non-numeric *)
Lemma pep_number_print n r : 0 <= n -> nn r -> pep_number (Z_to_dec n ++ r) = (gv n, r).
Proof.
  intros Hn Nr. destruct (Z_to_dec_spec n Hn) as (D & Ne & _).
  destruct (dec_head n Hn) as (d0 & ds & E & D0).
  unfold pep_number. rewrite E. cbn [app]. rewrite (digit_allow_sep d0 _ D0).
  change (d0 :: ds ++ r) with ((d0 :: ds) ++ r). rewrite <- E.
  rewrite (num_run_digits _ r D Nr). rewrite E at 1. unfold gv. reflexivity.
Qed.

(* ---------- local ---------- *)
Definition local_ok (l : bytes) : Prop :=
  l <> [] /\ forallb (fun c => is_alnum c || N.eqb c 46) l = true /\
  is_alnum (hd 0%N l) = true /\ is_alnum (last l 0%N) = true.

Definition loc_ok (loc : option bytes) : Prop := match loc with Some l => local_ok l | None => True end.

Lemma local_chars l : forallb (fun c => is_alnum c || N.eqb c 46) l = true ->
  forallb local_char l = true /\ map dash_to_dot l = l.
Proof.
  induction l as [|c l IH]; simpl; auto. intros H. apply andb_true_iff in H. destruct H as [Hc Hl].
  destruct (IH Hl) as [F M]. rewrite F, M.
  unfold local_char, dash_to_dot.
  destruct (N.eqb_spec c 46); subst; simpl; auto.
  simpl in Hc. rewrite orb_false_r in Hc.
  destruct (N.eqb_spec c 45); [subst; discriminate|]. destruct (N.eqb_spec c 95); [subst; discriminate|].
  simpl. rewrite Hc. auto.
Qed.

Lemma local_print e loc : loc_ok loc ->
  parse_local e (r_local loc) = Ok (match loc with Some l => Some (set_local (make_ext e) l) | None => e end, []).
Proof.
  destruct loc as [l|]; [|reflexivity]. intros (Ne & F & H & L).
  destruct l as [|c1 t]; [congruence|]. destruct (local_chars _ F) as [Fl M].
  unfold r_local, parse_local. cbn [negb N.eqb Pos.eqb]. rewrite Fl. cbn [hd] in H. rewrite H, L. cbn [negb orb].
  rewrite M. reflexivity.
Qed.

Lemma nn_r_local loc : nn (r_local loc).
Proof. destruct loc; simpl; auto. split; [reflexivity | discriminate]. Qed.

Lemma has_ascii_prefix_nil s : has_ascii_prefix s [] = true.
Proof. destruct s; reflexivity. Qed.

(* ---------- dev ---------- *)
Lemma dev_print e dev loc r : (match dev with Some n => 0 <= n | None => True end) ->
  r = r_dev dev (r_local loc) \/ r = dd (r_dev dev (r_local loc)) ->
  parse_dev e r = (match dev with Some n => Some (set_dev (make_ext e) (gv n)) | None => e end, r_local loc).
Proof.
  intros Hn Hr. destruct dev as [n|].
  - assert (E : allow_sep r = [100; 101; 118]%N ++ Z_to_dec n ++ r_local loc /\ r <> []).
    { destruct Hr as [->| ->]; split; try reflexivity; discriminate. }
    destruct E as [E Ne]. unfold parse_dev, Pep440Parse.s_dev. destruct r as [|r0 rt]; [congruence|].
    rewrite E. cbn [app has_ascii_prefix N.lor N.eqb Pos.lor Pos.eqb andb skipn].
    rewrite has_ascii_prefix_nil.
    rewrite (pep_number_print n _ Hn (nn_r_local loc)). reflexivity.
  - assert (E : r = r_local loc) by (destruct Hr as [->| ->]; destruct loc; reflexivity).
    subst r. destruct loc; reflexivity.
Qed.

Lemma nn_r_dev dev loc : nn (r_dev dev (r_local loc)).
Proof. destruct dev; [split; [reflexivity|discriminate] | apply nn_r_local]. Qed.

(* ---------- post ---------- *)
Lemma post_print e post dev loc r : (match post with Some n => 0 <= n | None => True end) ->
  r = r_post post (r_dev dev (r_local loc)) \/ r = dd (r_post post (r_dev dev (r_local loc))) ->
  exists r', parse_post e r = (match post with Some n => Some (set_post (make_ext e) (gv n)) | None => e end, r') /\
             (r' = r_dev dev (r_local loc) \/ r' = dd (r_dev dev (r_local loc))).
Proof.
  intros Hn Hr. destruct post as [n|].
  - exists (r_dev dev (r_local loc)). split; [|left; reflexivity].
    assert (E : allow_sep r = [112; 111; 115; 116]%N ++ Z_to_dec n ++ r_dev dev (r_local loc) /\ r <> [] /\
                match r with c :: _ => N.eqb c 45 = false | [] => True end).
    { destruct Hr as [->| ->]; repeat split; try reflexivity; discriminate. }
    destruct E as (E & Ne & Hd). unfold parse_post. destruct r as [|r0 rt]; [congruence|].
    rewrite E, Hd. unfold pep440_post_strings.
    cbn [app find_post has_ascii_prefix N.lor N.eqb Pos.lor Pos.eqb andb skipn length Nat.eqb].
    rewrite has_ascii_prefix_nil. cbn [length Nat.eqb andb skipn].
    rewrite (pep_number_print n _ Hn (nn_r_dev dev loc)). reflexivity.
  - exists r. split; [|exact Hr].
    unfold r_post in Hr.
    destruct dev as [m|]; [|destruct loc as [l|]]; destruct Hr as [->| ->]; reflexivity.
Qed.

Lemma nn_r_post post dev loc : nn (r_post post (r_dev dev (r_local loc))).
Proof. destruct post; [split; [reflexivity|discriminate] | apply nn_r_dev]. Qed.

(* ---------- pre ---------- *)
Definition pre_ok (pre : option (bytes * Z)) : Prop :=
  match pre with
  | Some (w, n) => (w = [97%N] \/ w = [98%N] \/ w = [114; 99]%N) /\ 0 <= n
  | None => True
  end.

Lemma pre_print e pre post dev loc r : pre_ok pre ->
  r = r_tail pre post dev loc \/ r = dd (r_tail pre post dev loc) ->
  exists r', parse_pre e r =
             (match pre with Some (w, n) => Some (set_pre (make_ext e) w (gv n)) | None => e end,
              match pre with Some (w, n) => Some [w; Z_to_dec (gv n)] | None => None end, r') /\
             (r' = r_post post (r_dev dev (r_local loc)) \/ r' = dd (r_post post (r_dev dev (r_local loc)))).
Proof.
  intros Hp Hr. unfold r_tail in Hr. destruct pre as [[w n]|].
  - destruct Hp as [Hw Hn]. exists (r_post post (r_dev dev (r_local loc))). split; [|left; reflexivity].
    destruct (dec_head n Hn) as (d0 & ds & E & D0).
    assert (Er : r = w ++ Z_to_dec n ++ r_post post (r_dev dev (r_local loc))).
    { destruct Hr as [->| ->]; [reflexivity|]. destruct Hw as [->|[->| ->]]; reflexivity. }
    subst r. pose proof (digit_cases d0 D0) as I. cbn [In] in I.
    pose proof (pep_number_print n _ Hn (nn_r_post post dev loc)) as Pn.
    unfold parse_pre, pep440_pre_strings.
    destruct Hw as [->|[->| ->]]; rewrite E in *; cbn [app] in *;
      repeat (destruct I as [<-|I];
              [cbn [allow_sep find_pre has_ascii_prefix N.lor N.eqb Pos.lor Pos.eqb andb orb skipn length];
               rewrite Pn; reflexivity|]);
      destruct I.
  - exists r. split; [|exact Hr]. unfold r_pre in Hr. unfold parse_pre, pep440_pre_strings.
    destruct post as [q|]; [|destruct dev as [m|]; [|destruct loc as [l|]]]; destruct Hr as [->| ->]; reflexivity.
Qed.

(* ---------- release numbers ---------- *)
Lemma parse_num_ok d : d <> [] -> forallb is_digit d = true -> sp_int d < infinity -> parse_num d = Some (sp_int d).
Proof.
  intros Hne Hd Hlt. destruct d as [|c0 d']; [congruence|].
  assert (D0 : is_digit c0 = true) by (cbn [forallb] in Hd; apply andb_true_iff in Hd; tauto).
  unfold parse_num. destruct d' as [|c1 d''].
  - rewrite D0. unfold sp_int. cbn [dec_val]. f_equal; lia.
  - assert (P : parse_int (c0 :: c1 :: d'') 64 =
                match digits_val (c0 :: c1 :: d'') 0 with
                | None => None
                | Some n0 => if (n0 <? - 2 ^ (64 - 1)) || (2 ^ (64 - 1) - 1 <? n0) then None else Some n0
                end).
    { pose proof (digit_cases c0 D0) as I. simpl in I.
      repeat (destruct I as [<-|I]; [reflexivity|]). destruct I. }
    rewrite P. rewrite (digits_val_dec _ 0 Hd). fold (sp_int (c0 :: c1 :: d'')).
    pose proof (sp_int_nonneg (c0 :: c1 :: d'')) as Nn. unfold infinity in *.
    destruct (Z.ltb_spec (sp_int (c0 :: c1 :: d'')) (- 2 ^ (64 - 1))); [lia|].
    destruct (Z.ltb_spec (2 ^ (64 - 1) - 1) (sp_int (c0 :: c1 :: d''))); [simpl in *; lia|].
    cbn [orb].
    destruct (Z.ltb_spec (sp_int (c0 :: c1 :: d'')) 0); [lia|].
    destruct (Z.leb_spec 9223372036854775807 (sp_int (c0 :: c1 :: d''))); [lia|]. reflexivity.
Qed.

Definition valid_num (x : Z) : Prop := x = wildcard \/ x = infinity \/ 0 <= x < infinity.

Definition pn (l : list Z) : bytes := join_dots (map value_string l).

Lemma pn_cons2 x y l : pn (x :: y :: l) = value_string x ++ 46%N :: pn (y :: l).
Proof. reflexivity. Qed.

Lemma pn_one x : pn [x] = value_string x.
Proof. unfold pn. simpl. apply app_nil_r. Qed.

Lemma value_string_cases x : valid_num x ->
  (x = wildcard /\ value_string x = [42%N]) \/
  (x = infinity /\ value_string x = s_inf) \/
  (0 <= x < infinity /\ value_string x = Z_to_dec x).
Proof.
  unfold valid_num, value_string, wildcard, infinity. intros [->|[->|H]]; auto.
  right. right. split; auto.
  destruct (Z.eqb_spec x 9223372036854775807); [lia|]. destruct (Z.eqb_spec x (-1)); [lia|]. reflexivity.
Qed.

(* one segment of the release loop on a printed number *)
Lemma segment_print x r first : valid_num x -> nn r -> (first = true -> x <> wildcard) ->
  exists seg, segment (value_string x ++ r) = (seg, r) /\ seg <> [] /\ seg_value seg first = Some x.
Proof.
  intros V Nr Hf. destruct (value_string_cases x V) as [[-> E]|[[-> E]|[H E]]]; rewrite E.
  - exists [42%N]. unfold segment. cbn [app]. rewrite num_run_nn by (split; [reflexivity|discriminate]).
    cbn [N.eqb Pos.eqb]. split; [reflexivity|]. split; [discriminate|].
    unfold seg_value. cbn [bytes_eqb s_inf N.eqb Pos.eqb andb]. destruct first; auto. exfalso. apply Hf; reflexivity.
  - exists s_inf. unfold segment. rewrite (num_run_inf r Nr). split; [reflexivity|]. split; [discriminate|reflexivity].
  - destruct (Z_to_dec_spec x ltac:(lia)) as (D & Ne & Vd).
    exists (Z_to_dec x). unfold segment. rewrite (num_run_digits _ r D Nr).
    destruct (Z_to_dec x) as [|d0 ds] eqn:Ed; [congruence|]. split; [reflexivity|]. split; [discriminate|].
    unfold seg_value. destruct (digits_not_special (d0 :: ds) ltac:(discriminate) D) as [E1 E2]. rewrite E1, E2.
    rewrite parse_num_ok; auto; try discriminate; unfold sp_int; rewrite Vd; [reflexivity | lia].
Qed.

Lemma value_string_nonempty x : valid_num x -> value_string x <> [].
Proof.
  intros V. destruct (value_string_cases x V) as [[_ E]|[[_ E]|[H E]]]; rewrite E; try discriminate.
  apply Z_to_dec_spec. lia.
Qed.

(* what may follow the release numbers *)
Definition tail_ok (T : bytes) : Prop :=
  nn T /\ forall t, T = 46%N :: t -> exists c t', t = c :: t' /\ nn t /\ c <> 42%N.

Lemma dd_not_dot T : match T with c :: _ => c <> 46%N | [] => True end -> dd T = T.
Proof. destruct T as [|c t]; auto. intros H. simpl. destruct (N.eqb_spec c 46); congruence. Qed.

Lemma release_print nums : forall first T f,
  nums <> [] -> Forall valid_num nums -> (first = true -> hd 0 nums <> wildcard) -> tail_ok T ->
  (length (pn nums ++ T) < f)%nat ->
  release f (pn nums ++ T) first = Ok (nums, dd T).
Proof.
  induction nums as [|x l IH]; intros first T f Hne V Hf [NT HT] L; [congruence|].
  inversion V as [|? ? Vx Vl]; subst.
  destruct f as [|f]; [lia|].
  destruct l as [|y l'].
  - rewrite pn_one in *.
    destruct (segment_print x T first Vx NT Hf) as (seg & Sg & Sne & Sv).
    cbn [release]. pose proof (value_string_nonempty x Vx) as Vne.
    destruct (value_string x ++ T) as [|c0 s0] eqn:Es.
    { apply app_eq_nil in Es. destruct Es; congruence. }
    rewrite <- Es in *. rewrite Sg. destruct seg as [|g0 gs]; [congruence|]. rewrite Sv.
    destruct T as [|c t]; [reflexivity|].
    destruct (N.eqb_spec c 46) as [->|Hc].
    + destruct (HT t eq_refl) as (c' & t' & -> & Nt & Hs).
      destruct f as [|f]; [rewrite app_length in L; simpl in L; lia|].
      cbn [release]. unfold segment. rewrite (num_run_nn _ Nt).
      destruct (N.eqb_spec c' 42); [congruence|]. cbn [bind fst snd]. reflexivity.
    + rewrite dd_not_dot by auto. reflexivity.
  - rewrite pn_cons2 in *. rewrite <- app_assoc in *. cbn [app] in *.
    assert (Nd : nn (46%N :: pn (y :: l') ++ T)) by (split; [reflexivity|discriminate]).
    destruct (segment_print x _ first Vx Nd Hf) as (seg & Sg & Sne & Sv).
    cbn [release]. pose proof (value_string_nonempty x Vx) as Vne.
    destruct (value_string x ++ 46%N :: pn (y :: l') ++ T) as [|c0 s0] eqn:Es.
    { apply app_eq_nil in Es. destruct Es; congruence. }
    rewrite <- Es in *. rewrite Sg. destruct seg as [|g0 gs]; [congruence|]. rewrite Sv.
    cbn [N.eqb Pos.eqb].
    assert (Lr : (length (pn (y :: l') ++ T) < f)%nat).
    { rewrite app_length in L. simpl in L. lia. }
    assert (Hy : pn (y :: l') ++ T <> []).
    { inversion Vl; subst. intros X. apply app_eq_nil in X. destruct X as [X _].
      destruct l'; [rewrite pn_one in X | rewrite pn_cons2 in X; apply app_eq_nil in X; destruct X as [X _]];
        eapply value_string_nonempty; eauto. }
    destruct (pn (y :: l') ++ T) as [|c1 s1] eqn:Ey; [congruence|]. rewrite <- Ey in *.
    rewrite (IH false T f ltac:(discriminate) Vl ltac:(discriminate) (conj NT HT) Lr).
    reflexivity.
Qed.

(* ---------- characters: chars_ok, TrimSpace, the epoch bang ---------- *)
(* the bytes a string accepted by the character check can contain *)
Definition allowed (c : N) : Prop := (32 < c < 127)%N \/ c = 226%N \/ c = 136%N \/ c = 158%N.

Lemma chars_ok_allowed s : chars_ok s = true -> Forall allowed s.
Proof.
  induction s as [s IH] using bytes_len_ind.
  destruct s as [|c t]; simpl; [constructor|].
  destruct (N.leb_spec c 32); [discriminate|].
  destruct (N.ltb_spec c 127).
  - intros H'. constructor; [left; lia | apply IH; [simpl; lia | assumption]].
  - destruct t as [|c2 [|c3 t']]; try discriminate.
    destruct (N.eqb_spec c 226); [|discriminate]. destruct (N.eqb_spec c2 136); [|discriminate].
    destruct (N.eqb_spec c3 158); [|discriminate]. simpl. intros H'. subst.
    constructor; [right; left; reflexivity|]. constructor; [right; right; left; reflexivity|].
    constructor; [right; right; right; reflexivity|]. apply IH; [simpl; lia | assumption].
Qed.

Ltac kill_eqb :=
  repeat match goal with
         | |- context [N.eqb ?k ?v] =>
             is_var v;
             let E := fresh "E" in
             destruct (N.eqb_spec k v) as [E|E]; [try (exfalso; lia) | clear E]
         end.

(* no white-space pattern (nor a reversed one) starts a string of allowed bytes *)
Lemma strip_any_allowed2 c c2 t : allowed c -> allowed c2 ->
  strip_any space_seqs (c :: c2 :: t) = None /\ strip_any (map (@rev N) space_seqs) (c :: c2 :: t) = None.
Proof.
  intros A A2. unfold space_seqs. cbn [map rev app strip_any strip_prefix].
  destruct A as [A|[A|[A|A]]], A2 as [A2|[A2|[A2|A2]]]; split; kill_eqb; reflexivity.
Qed.

Lemma strip_any_allowed1 c : allowed c ->
  strip_any space_seqs [c] = None /\ strip_any (map (@rev N) space_seqs) [c] = None.
Proof.
  intros A. unfold space_seqs. cbn [map rev app strip_any strip_prefix].
  destruct A as [A|[A|[A|A]]]; split; kill_eqb; reflexivity.
Qed.

Lemma strip_any_allowed s : Forall allowed s ->
  strip_any space_seqs s = None /\ strip_any (map (@rev N) space_seqs) s = None.
Proof.
  intros A. destruct s as [|c [|c2 t]].
  - split; reflexivity.
  - inversion A; subst. apply strip_any_allowed1; auto.
  - inversion A as [|? ? A1 A']; subst. inversion A'; subst. apply strip_any_allowed2; auto.
Qed.

Lemma trim_left_none pats n s : strip_any pats s = None -> trim_left pats n s = s.
Proof. intros H. destruct n; simpl; auto. rewrite H. reflexivity. Qed.

(* TrimSpace leaves a string that passes the character check unchanged *)
Lemma trim_space_id s : chars_ok s = true -> trim_space s = s.
Proof.
  intros C. apply chars_ok_allowed in C. unfold trim_space.
  rewrite (trim_left_none _ _ _ (proj1 (strip_any_allowed s C))).
  rewrite !frev_rev.
  rewrite (trim_left_none _ _ _ (proj2 (strip_any_allowed (rev s) (Forall_rev C)))).
  apply rev_involutive.
Qed.

(* pieces that the character check traverses completely, and that contain no bang *)
Definition okstr (s : bytes) : Prop := forall b, chars_ok (s ++ b) = chars_ok b.
Definition plainnb (s : bytes) : Prop := Forall (fun c => (32 < c < 127)%N /\ c <> 33%N) s.

Lemma okstr_app a b : okstr a -> okstr b -> okstr (a ++ b).
Proof. intros Ha Hb x. rewrite <- app_assoc. rewrite Ha. apply Hb. Qed.

Lemma okstr_nil : okstr [].
Proof. intros b; reflexivity. Qed.

Lemma plainnb_okstr s : plainnb s -> okstr s.
Proof.
  induction 1 as [|c t [Hc _] Ht IH]; intros b; [reflexivity|].
  cbn [app chars_ok]. destruct (N.leb_spec c 32); [lia|]. destruct (N.ltb_spec c 127); [|lia]. apply IH.
Qed.

Lemma plainnb_nobang s : plainnb s -> ~ In 33%N s.
Proof. induction 1 as [|c t [_ Hc] Ht IH]; simpl; [tauto|]. intros [E|E]; auto. Qed.

Lemma okstr_inf : okstr s_inf.
Proof. intros b. reflexivity. Qed.

Lemma digits_plainnb d : forallb is_digit d = true -> plainnb d.
Proof.
  unfold plainnb. intros H. apply Forall_forall. intros c Hc. rewrite forallb_forall in H.
  specialize (H c Hc). unfold is_digit in H. apply andb_true_iff in H. destruct H as [H1 H2].
  apply N.leb_le in H1, H2. lia.
Qed.

Lemma plainnb_app a b : plainnb a -> plainnb b -> plainnb (a ++ b).
Proof. unfold plainnb. intros; apply Forall_app; auto. Qed.

Lemma split_at_byte_none b s : ~ In b s -> split_at_byte b s = None.
Proof. intros H. pose proof (split_at_byte_spec b s) as S. destruct (split_at_byte b s) as [[x y]|]; auto.
  destruct S as [-> _]. exfalso. apply H. apply in_or_app. right. left. reflexivity. Qed.

Lemma split_at_byte_app b x y : ~ In b x -> split_at_byte b (x ++ b :: y) = Some (x, y).
Proof.
  induction x as [|c x IH]; intros H; simpl.
  - rewrite N.eqb_refl. reflexivity.
  - destruct (N.eqb_spec c b) as [->|Hc]; [exfalso; apply H; left; reflexivity|].
    rewrite IH; auto. intros X; apply H; right; auto.
Qed.

(* ---------- possibleVersionString on a rendered version ---------- *)
Lemma possible_scan_digits ds : forall r i n, forallb is_digit ds = true ->
  possible_scan (ds ++ r) i n =
  if Nat.leb n (length ds) then true else possible_scan r (i + length ds) (n - length ds).
Proof.
  induction ds as [|c ds IH]; intros r i n D.
  - cbn [app length]. rewrite Nat.add_0_r, Nat.sub_0_r. destruct n, r; reflexivity.
  - cbn [forallb] in D. apply andb_true_iff in D. destruct D as [Dc Dd].
    destruct n as [|n]; [destruct (ds ++ r); reflexivity|]. cbn [app possible_scan length].
    destruct (digit_not_alpha c Dc) as [_ Hs]. unfold sp_sep in Hs.
    assert (E : N.eqb c 46 || N.eqb c 45 || N.eqb c 43 = false).
    { unfold is_digit in Dc. apply andb_true_iff in Dc. destruct Dc as [H1 H2]. apply N.leb_le in H1, H2.
      destruct (N.eqb_spec c 46), (N.eqb_spec c 45), (N.eqb_spec c 43); auto; lia. }
    rewrite E, Dc. cbn [orb]. rewrite (IH r (S i) n Dd).
    cbn [Nat.leb]. replace (S i + length ds)%nat with (i + S (length ds))%nat by lia. reflexivity.
Qed.

Lemma possible_pypi_digits d0 ds r : is_digit d0 = true -> possible_pypi ((d0 :: ds) ++ r) = possible_scan ((d0 :: ds) ++ r) 0 3.
Proof.
  intros D. unfold possible_pypi. cbn [app]. rewrite (strip_v_digit d0 _ D). reflexivity.
Qed.

(* digits followed by a dot *)
Lemma possible_digits_dot ds r : ds <> [] -> forallb is_digit ds = true ->
  possible_pypi (ds ++ 46%N :: r) = true.
Proof.
  intros Ne D. destruct ds as [|d0 ds']; [congruence|].
  assert (D0 : is_digit d0 = true) by (cbn [forallb] in D; apply andb_true_iff in D; tauto).
  rewrite (possible_pypi_digits d0 ds' _ D0). rewrite possible_scan_digits by auto.
  destruct (Nat.leb 3 (length (d0 :: ds'))) eqn:L; auto.
  cbn [length] in *. destruct ds' as [|d1 [|d2 ds'']]; cbn [length] in *; try reflexivity; discriminate.
Qed.

(* digits, bang, digits, dot *)
Lemma possible_digits_bang ds ds2 r : ds <> [] -> forallb is_digit ds = true ->
  ds2 <> [] -> forallb is_digit ds2 = true ->
  possible_pypi (ds ++ 33%N :: ds2 ++ 46%N :: r) = true.
Proof.
  intros Ne D Ne2 D2. destruct ds as [|d0 ds']; [congruence|].
  assert (D0 : is_digit d0 = true) by (cbn [forallb] in D; apply andb_true_iff in D; tauto).
  rewrite (possible_pypi_digits d0 ds' _ D0). rewrite possible_scan_digits by auto.
  destruct ds2 as [|e0 ds2']; [congruence|].
  assert (E0 : is_digit e0 = true) by (cbn [forallb] in D2; apply andb_true_iff in D2; tauto).
  destruct (digit_not_alpha e0 E0) as [_ Hs]. unfold sp_sep in Hs.
  assert (E : N.eqb e0 46 || N.eqb e0 45 || N.eqb e0 43 = false).
  { unfold is_digit in E0. apply andb_true_iff in E0. destruct E0 as [H1 H2]. apply N.leb_le in H1, H2.
    destruct (N.eqb_spec e0 46), (N.eqb_spec e0 45), (N.eqb_spec e0 43); auto; lia. }
  destruct ds' as [|d1 [|d2 ds'']]; cbn [length Nat.leb Nat.add Nat.sub app possible_scan N.eqb Pos.eqb orb];
    try reflexivity; rewrite ?E, ?E0; cbn [orb negb Nat.eqb]; try reflexivity.
  destruct ds2' as [|e1 ds2'']; cbn [app possible_scan N.eqb Pos.eqb orb negb Nat.eqb]; reflexivity.
Qed.

(* ---------- the pieces of a rendered version ---------- *)
Lemma dec_pieces n : 0 <= n -> plainnb (Z_to_dec n).
Proof. intros H. apply digits_plainnb. apply Z_to_dec_spec; auto. Qed.

Lemma value_string_pieces x : valid_num x -> okstr (value_string x) /\ ~ In 33%N (value_string x).
Proof.
  intros V. destruct (value_string_cases x V) as [[_ E]|[[_ E]|[H E]]]; rewrite E.
  - split; [apply plainnb_okstr; repeat constructor; lia | simpl; intros [X|[]]; discriminate].
  - split; [apply okstr_inf | simpl; intros [X|[X|[X|[]]]]; discriminate].
  - pose proof (dec_pieces x ltac:(lia)) as P. split; [apply plainnb_okstr | apply plainnb_nobang]; auto.
Qed.

Lemma pn_pieces l : Forall valid_num l -> okstr (pn l) /\ ~ In 33%N (pn l).
Proof.
  induction 1 as [|x l Vx Vl IH]; [split; [apply okstr_nil | simpl; tauto]|].
  destruct (value_string_pieces x Vx) as [O N]. destruct IH as [Ol Nl].
  destruct l as [|y l'].
  - rewrite pn_one. auto.
  - rewrite pn_cons2. split.
    + change (46%N :: pn (y :: l')) with ([46%N] ++ pn (y :: l')).
      apply okstr_app; [exact O|]. apply okstr_app; [apply plainnb_okstr; repeat constructor; lia | exact Ol].
    + intros X. apply in_app_or in X. destruct X as [X|[X|X]]; auto; try discriminate.
Qed.

Definition pre_str (pre : option (bytes * Z)) : bytes := match pre with Some (w, _) => w | None => [] end.

Lemma local_plainnb l : forallb (fun c => is_alnum c || N.eqb c 46) l = true -> plainnb l.
Proof.
  unfold plainnb. intros H. apply Forall_forall. intros c Hc. rewrite forallb_forall in H. specialize (H c Hc).
  unfold is_alnum, is_digit, is_alpha in H.
  destruct (N.leb_spec 48 c), (N.leb_spec c 57), (N.leb_spec 97 c), (N.leb_spec c 122), (N.leb_spec 65 c), (N.leb_spec c 90),
    (N.eqb_spec c 46); simpl in H; try discriminate; lia.
Qed.

Lemma tail_pieces pre post dev loc : pre_ok pre ->
  (match post with Some n => 0 <= n | None => True end) ->
  (match dev with Some n => 0 <= n | None => True end) -> loc_ok loc ->
  plainnb (r_tail pre post dev loc).
Proof.
  intros Hp Hq Hd Hl. unfold r_tail.
  assert (L : plainnb (r_local loc)).
  { destruct loc as [l|]; [|constructor]. destruct Hl as (_ & F & _). constructor; [lia|]. apply local_plainnb; auto. }
  assert (D : plainnb (r_dev dev (r_local loc))).
  { destruct dev as [n|]; auto. unfold r_dev. apply plainnb_app; [repeat constructor; lia|].
    apply plainnb_app; auto. apply dec_pieces; auto. }
  assert (Q : plainnb (r_post post (r_dev dev (r_local loc)))).
  { destruct post as [n|]; auto. unfold r_post. apply plainnb_app; [repeat constructor; lia|].
    apply plainnb_app; auto. apply dec_pieces; auto. }
  destruct pre as [[w n]|]; auto. destruct Hp as [Hw Hn]. unfold r_pre.
  apply plainnb_app; [destruct Hw as [->|[->| ->]]; repeat constructor; lia|].
  apply plainnb_app; auto. apply dec_pieces; auto.
Qed.

Lemma tail_ok_r_tail pre post dev loc : pre_ok pre ->
  (match post with Some n => 0 <= n | None => True end) ->
  (match dev with Some n => 0 <= n | None => True end) ->
  tail_ok (r_tail pre post dev loc).
Proof.
  intros Hp Hq Hd. unfold r_tail, tail_ok.
  destruct pre as [[w n]|].
  - destruct Hp as [[->|[->| ->]] _]; (split; [split; [reflexivity|discriminate] | intros t E; discriminate E]).
  - cbn [r_pre]. destruct post as [q|].
    + split; [split; [reflexivity|discriminate]|]. intros t E. inversion E; subst.
      eexists; eexists. split; [reflexivity|]. split; [split; [reflexivity|discriminate] | discriminate].
    + cbn [r_post]. destruct dev as [m|].
      * split; [split; [reflexivity|discriminate]|]. intros t E. inversion E; subst.
        eexists; eexists. split; [reflexivity|]. split; [split; [reflexivity|discriminate] | discriminate].
      * cbn [r_dev]. split; [apply nn_r_local|]. intros t E. destruct loc; discriminate E.
Qed.

(* ---------- the epoch ---------- *)
Lemma parse_epoch_render ep R : 0 <= ep <= 255 -> ~ In 33%N R ->
  parse_epoch (r_epoch ep R) = Ok (if ep =? 0 then None else Some (set_epoch zero_pep440 ep), R).
Proof.
  intros He Hn. unfold r_epoch, parse_epoch. destruct (Z.eqb_spec ep 0) as [->|Hz].
  - rewrite (split_at_byte_none _ _ Hn). reflexivity.
  - destruct (Z_to_dec_spec ep ltac:(lia)) as (D & Ne & V).
    rewrite (split_at_byte_app 33 (Z_to_dec ep) R (plainnb_nobang _ (digits_plainnb _ D))).
    destruct (Z_to_dec ep) as [|c before] eqn:E; [congruence|].
    rewrite (digits_val_dec _ 0 D). rewrite V.
    destruct (Z.leb_spec ep 255); [reflexivity | lia].
Qed.

(* ---------- Parse on a rendered version ---------- *)
Definition ext_after (ep : Z) pre post dev loc : option pep440 :=
  let e0 := if ep =? 0 then None else Some (set_epoch zero_pep440 ep) in
  let e1 := match pre with Some (w, n) => Some (set_pre (make_ext e0) w (gv n)) | None => e0 end in
  let e2 := match post with Some n => Some (set_post (make_ext e1) (gv n)) | None => e1 end in
  let e3 := match dev with Some n => Some (set_dev (make_ext e2) (gv n)) | None => e2 end in
  match loc with Some l => Some (set_local (make_ext e3) l) | None => e3 end.

Lemma okstr_bang : okstr [33%N].
Proof. intros b. reflexivity. Qed.

Lemma pn_head n1 rest : 0 <= n1 < infinity -> exists X, pn (n1 :: rest) = Z_to_dec n1 ++ X.
Proof.
  intros H.
  assert (Vs1 : value_string n1 = Z_to_dec n1).
  { destruct (value_string_cases n1 ltac:(right; right; auto)) as [[E _]|[[E _]|[_ E]]]; auto;
      unfold wildcard, infinity in *; lia. }
  destruct rest as [|y l].
  - exists []. rewrite pn_one, app_nil_r. exact Vs1.
  - exists (46%N :: pn (y :: l)). rewrite pn_cons2, Vs1. reflexivity.
Qed.

(* pep440Extension.init on a rendered version *)
Theorem pep_init_render_gen ep n1 rest pre post dev loc :
  let nums := n1 :: rest in
  0 <= ep <= 255 -> 0 <= n1 < infinity -> Forall valid_num nums ->
  pre_ok pre -> (match post with Some n => 0 <= n | None => True end) ->
  (match dev with Some n => 0 <= n | None => True end) -> loc_ok loc ->
  pep_init (render ep (pn nums) pre post dev loc) =
  Ok (pad3 nums, wrap16 (Z.of_nat (length nums)),
      match pre with Some (w, n) => [w; Z_to_dec (gv n)] | None => [] end,
      match pre with Some _ => true | None => false end,
      ext_after ep pre post dev loc).
Proof.
  intros nums Hep Hn1 V Hp Hq Hd Hl. set (s := render ep (pn nums) pre post dev loc).
  set (T := r_tail pre post dev loc).
  assert (Tp : plainnb T) by (apply tail_pieces; auto).
  destruct (pn_pieces nums V) as [On Nn].
  assert (Nb : ~ In 33%N (pn nums ++ T)).
  { intros X. apply in_app_or in X. destruct X as [X|X]; [auto | apply (plainnb_nobang T Tp X)]. }
  assert (Ck : chars_ok s = true).
  { unfold s, render, r_epoch. fold T.
    assert (O2 : okstr (pn nums ++ T)) by (apply okstr_app; [exact On | apply plainnb_okstr; exact Tp]).
    destruct (ep =? 0).
    - rewrite <- (app_nil_r (pn nums ++ T)). rewrite O2. reflexivity.
    - change (Z_to_dec ep ++ 33%N :: pn nums ++ T) with (Z_to_dec ep ++ [33%N] ++ (pn nums ++ T)).
      rewrite <- (app_nil_r (Z_to_dec ep ++ [33%N] ++ pn nums ++ T)). rewrite <- !app_assoc.
      rewrite (plainnb_okstr _ (dec_pieces ep ltac:(lia))). rewrite okstr_bang.
      rewrite app_assoc. rewrite O2. reflexivity. }
  unfold pep_init. fold s. rewrite (trim_space_id s Ck). rewrite Ck. cbn [negb].
  unfold s, render. fold T. rewrite (parse_epoch_render ep _ Hep Nb). cbn [bind].
  set (e0 := if ep =? 0 then None else Some (set_epoch zero_pep440 ep)).
  assert (Sv : strip_v (pn nums ++ T) = pn nums ++ T).
  { destruct (pn_head n1 rest Hn1) as [X EX]. fold nums in EX. rewrite EX.
    destruct (dec_head n1 ltac:(lia)) as (d0 & ds & E & D0). rewrite E. cbn [app].
    apply strip_v_digit; auto. }
  rewrite Sv.
  assert (Tk : tail_ok T) by (apply tail_ok_r_tail; auto).
  rewrite (release_print nums true T _ ltac:(discriminate) V) ; auto;
    [| intros _; cbn [hd nums]; unfold wildcard; lia].
  cbn [bind]. unfold nums at 1.
  destruct (pre_print e0 pre post dev loc (dd T) Hp (or_intror eq_refl)) as (r1 & P1 & R1).
  rewrite P1.
  destruct (post_print (match pre with Some (w, n) => Some (set_pre (make_ext e0) w (gv n)) | None => e0 end)
              post dev loc r1 Hq R1) as (r2 & P2 & R2).
  rewrite P2.
  rewrite (dev_print _ dev loc r2 Hd R2).
  rewrite (local_print _ loc Hl). cbn [bind].
  unfold ext_after. fold e0. destruct pre as [[w n]|]; reflexivity.
Qed.

Theorem pep_init_render ep n1 n2 rest pre post dev loc :
  let nums := n1 :: n2 :: rest in
  0 <= ep <= 255 -> 0 <= n1 < infinity -> Forall valid_num nums ->
  pre_ok pre -> (match post with Some n => 0 <= n | None => True end) ->
  (match dev with Some n => 0 <= n | None => True end) -> loc_ok loc ->
  let s := render ep (pn nums) pre post dev loc in
  possible_pypi s = true /\
  pep_init s = Ok (pad3 nums, wrap16 (Z.of_nat (length nums)),
                   match pre with Some (w, n) => [w; Z_to_dec (gv n)] | None => [] end,
                   match pre with Some _ => true | None => false end,
                   ext_after ep pre post dev loc).
Proof.
  intros nums Hep Hn1 V Hp Hq Hd Hl s.
  split; [|apply pep_init_render_gen; auto].
  destruct (Z_to_dec_spec n1 ltac:(lia)) as (D1 & Ne1 & V1).
  assert (Vs1 : value_string n1 = Z_to_dec n1).
  { destruct (value_string_cases n1 ltac:(right; right; auto)) as [[E _]|[[E _]|[_ E]]]; auto;
      unfold wildcard, infinity in *; lia. }
  assert (Epn : pn nums = Z_to_dec n1 ++ 46%N :: pn (n2 :: rest)).
  { unfold nums. rewrite pn_cons2, Vs1. reflexivity. }
  unfold s, render, r_epoch. rewrite Epn. destruct (Z.eqb_spec ep 0).
  - rewrite <- app_assoc. cbn [app]. apply possible_digits_dot; auto.
  - destruct (Z_to_dec_spec ep ltac:(lia)) as (De & Nee & _).
    rewrite <- app_assoc. cbn [app]. apply possible_digits_bang; auto.
Qed.

(* ---------- invariants of what Parse stores ---------- *)
Definition int64 (z : Z) : Prop := - two63 <= z < two63.

Lemma to_int64_range z : int64 (to_int64 z).
Proof.
  unfold int64, to_int64, two63. pose proof (Z.mod_pos_bound z 18446744073709551616 ltac:(lia)).
  destruct (Z.ltb_spec (z mod 18446744073709551616) 9223372036854775808); lia.
Qed.

Lemma pep_number_int64 s : int64 (fst (pep_number s)).
Proof.
  unfold pep_number. destruct (num_run (allow_sep s)) as [[|c run] rest]; cbn [fst].
  - unfold int64, two63. lia.
  - apply to_int64_range.
Qed.

Record wf_x (x : pep440) : Prop := {
  wx_epoch : 0 <= p_epoch x <= 255;
  wx_pre : (p_pre x = [] /\ p_prenum x = 0) \/
           ((p_pre x = [97%N] \/ p_pre x = [98%N] \/ p_pre x = [114; 99]%N) /\ int64 (p_prenum x));
  wx_post : (p_post x = false -> p_postnum x = 0) /\ int64 (p_postnum x);
  wx_dev : (p_dev x = false -> p_devnum x = 0) /\ int64 (p_devnum x);
  wx_local : p_local x = [] \/ local_ok (p_local x)
}.

Definition wf_e (e : option pep440) : Prop := wf_x (make_ext e).

Lemma int64_0 : int64 0.
Proof. unfold int64, two63. lia. Qed.

Lemma wf_zero : wf_x zero_pep440.
Proof. split; simpl; auto using int64_0; try lia. Qed.

Lemma parse_epoch_wf s e r : parse_epoch s = Ok (e, r) -> wf_e e.
Proof.
  unfold parse_epoch. destruct (split_at_byte 33 s) as [[[|c b] a]|]; try (intros H; inversion H; apply wf_zero).
  destruct (digits_val (c :: b) 0) as [n|] eqn:Dv; [|discriminate].
  destruct (Z.leb_spec n 255) as [Le|Le]; [|discriminate]. intros E; inversion E; subst.
  destruct (digits_val_some _ _ _ Dv) as [_ ->].
  pose proof (sp_int_nonneg (c :: b)) as Nn. unfold sp_int in Nn.
  split; simpl; auto using int64_0; try lia.
Qed.

Lemma find_pre_canon i t c : find_pre pep440_pre_strings i = Some (t, c) ->
  c = [97%N] \/ c = [98%N] \/ c = [114; 99]%N.
Proof.
  unfold pep440_pre_strings. cbn [find_pre].
  repeat match goal with |- context [has_ascii_prefix i ?w] => destruct (has_ascii_prefix i w) end;
    intros H; inversion H; auto.
Qed.

Lemma parse_pre_wf e s e1 vp r : wf_e e -> parse_pre e s = (e1, vp, r) -> wf_e e1.
Proof.
  intros W. unfold parse_pre. destruct s as [|c0 t]; [intros H; inversion H; subst; auto|].
  destruct (find_pre pep440_pre_strings (allow_sep (c0 :: t))) as [[text can]|] eqn:F;
    [|intros H; inversion H; subst; auto].
  pose proof (pep_number_int64 (skipn (length text) (allow_sep (c0 :: t)))) as I.
  destruct (pep_number (skipn (length text) (allow_sep (c0 :: t)))) as [n rest]. cbn [fst] in I.
  intros H; inversion H; subst. destruct W. unfold wf_e. cbn [make_ext].
  split; simpl; auto. right. split; auto. eapply find_pre_canon; eauto.
Qed.

Lemma parse_post_wf e s e2 r : wf_e e -> parse_post e s = (e2, r) -> wf_e e2.
Proof.
  intros W. unfold parse_post. destruct s as [|c0 t]; [intros H; inversion H; subst; auto|].
  match goal with |- (if ?b then _ else _) = _ -> _ => destruct b end; [intros H; inversion H; subst; auto|].
  match goal with |- (let '(n, rest) := pep_number ?x in _) = _ -> _ =>
    pose proof (pep_number_int64 x) as I; destruct (pep_number x) as [n rest] end.
  cbn [fst] in I. intros H; inversion H; subst. destruct W. unfold wf_e. cbn [make_ext].
  split; simpl; auto. split; auto. discriminate.
Qed.

Lemma parse_dev_wf e s e3 r : wf_e e -> parse_dev e s = (e3, r) -> wf_e e3.
Proof.
  intros W. unfold parse_dev. destruct s as [|c0 t]; [intros H; inversion H; subst; auto|].
  destruct (has_ascii_prefix (allow_sep (c0 :: t)) Pep440Parse.s_dev); [|intros H; inversion H; subst; auto].
  pose proof (pep_number_int64 (skipn 3 (allow_sep (c0 :: t)))) as I.
  destruct (pep_number (skipn 3 (allow_sep (c0 :: t)))) as [n rest]. cbn [fst] in I.
  intros H; inversion H; subst. destruct W. unfold wf_e. cbn [make_ext].
  split; simpl; auto. split; auto. discriminate.
Qed.

Lemma last_map {A B} (f : A -> B) l d : l <> [] -> last (map f l) (f d) = f (last l d).
Proof. induction l as [|x l IH]; [congruence|]. intros _. destruct l as [|y l']; [reflexivity|].
  change (last (map f (x :: y :: l')) (f d)) with (last (map f (y :: l')) (f d)).
  change (last (x :: y :: l') d) with (last (y :: l') d). apply IH. discriminate. Qed.

Lemma alnum_dash c : is_alnum c = true -> dash_to_dot c = c.
Proof.
  unfold is_alnum, is_digit, is_alpha, dash_to_dot. intros H.
  destruct (N.eqb_spec c 45), (N.eqb_spec c 95); subst; try discriminate; reflexivity.
Qed.

Lemma local_char_mapped c : local_char c = true -> is_alnum (dash_to_dot c) || N.eqb (dash_to_dot c) 46 = true.
Proof.
  unfold local_char, dash_to_dot.
  destruct (N.eqb_spec c 46), (N.eqb_spec c 45), (N.eqb_spec c 95); subst; simpl; auto.
  intros H. rewrite H. reflexivity.
Qed.

Lemma parse_local_wf e s e4 r : wf_e e -> parse_local e s = Ok (e4, r) -> wf_e e4.
Proof.
  intros W. unfold parse_local.
  destruct s as [|c0 [|c1 t]]; [intros H; inversion H; subst; auto | intros H; inversion H; subst; auto |].
  destruct (negb (N.eqb c0 43)); [intros H; inversion H; subst; auto|].
  destruct (forallb local_char (c1 :: t)) eqn:F; [|discriminate]. cbn [negb].
  destruct (is_alnum c1) eqn:A1; [|discriminate].
  destruct (is_alnum (last (c1 :: t) 0%N)) eqn:AL; [|discriminate]. cbn [negb orb].
  intros H; inversion H; subst. destruct W. unfold wf_e. cbn [make_ext].
  split; simpl; auto. right. split; [discriminate|]. split; [|split].
  - change (dash_to_dot c1 :: map dash_to_dot t) with (map dash_to_dot (c1 :: t)).
    rewrite forallb_forall in F. apply forallb_forall. intros x Hx. apply in_map_iff in Hx.
    destruct Hx as (y & <- & Hy). apply local_char_mapped. auto.
  - cbn [hd]. rewrite (alnum_dash c1 A1). exact A1.
  - change (dash_to_dot c1 :: map dash_to_dot t) with (map dash_to_dot (c1 :: t)).
    change 0%N with (dash_to_dot 0%N). rewrite last_map by discriminate. rewrite (alnum_dash _ AL). exact AL.
Qed.

(* release numbers *)
Lemma parse_num_valid s n : parse_num s = Some n -> 0 <= n < infinity.
Proof.
  unfold parse_num. destruct s as [|c [|c' t]].
  - destruct (parse_int [] 64) as [z|]; [|discriminate].
    destruct (Z.ltb_spec z 0) as [L|L]; [discriminate|]. destruct (Z.leb_spec infinity z) as [M|M]; [discriminate|].
    intros E; inversion E; subst; lia.
  - destruct (is_digit c) eqn:D; [|discriminate]. intros E; inversion E; subst.
    unfold is_digit in D. apply andb_true_iff in D. destruct D as [H1 H2]. apply N.leb_le in H1, H2.
    unfold infinity. lia.
  - destruct (parse_int (c :: c' :: t) 64) as [z|]; [|discriminate].
    destruct (Z.ltb_spec z 0) as [L|L]; [discriminate|]. destruct (Z.leb_spec infinity z) as [M|M]; [discriminate|].
    intros E; inversion E; subst; lia.
Qed.

Lemma seg_value_valid seg first x : seg_value seg first = Some x ->
  valid_num x /\ (first = true -> x <> wildcard).
Proof.
  unfold seg_value. destruct (bytes_eqb seg s_inf).
  - intros H; inversion H; subst. split; [right; left; reflexivity | intros _; discriminate].
  - destruct (bytes_eqb seg [42%N]).
    + destruct first; [discriminate|]. intros H; inversion H; subst. split; [left; reflexivity | discriminate].
    + intros H. apply parse_num_valid in H. split; [right; right; auto | intros _; unfold wildcard; lia].
Qed.

Lemma release_valid f : forall s first l r, release f s first = Ok (l, r) ->
  Forall valid_num l /\ (first = true -> match l with x :: _ => x <> wildcard | [] => True end).
Proof.
  induction f as [|f IH]; intros s first l r H; [discriminate|].
  cbn [release] in H. destruct s as [|c0 s0]; [inversion H; subst; split; auto|].
  destruct (segment (c0 :: s0)) as [seg rest]. destruct seg as [|g0 gs]; [inversion H; subst; split; auto|].
  destruct (seg_value (g0 :: gs) first) as [x|] eqn:Sv; [|discriminate].
  destruct (seg_value_valid _ _ _ Sv) as [Vx Fx].
  destruct rest as [|c rest']; [inversion H; subst; split; auto|].
  destruct (N.eqb c 46); [|inversion H; subst; split; auto].
  destruct rest' as [|c' r'']; [discriminate|].
  destruct (release f (c' :: r'') false) as [[l' rr]| | |] eqn:R'; cbn [bind fst snd] in H; try discriminate.
  inversion H; subst. destruct (IH _ _ _ _ R') as [Vl _]. split; auto.
Qed.

(* ---------- printNums ---------- *)
Lemma get_num_app pre x t : get_num (pre ++ x :: t) (length pre) = x.
Proof. induction pre as [|y pre IH]; simpl; auto. Qed.

Lemma print_nums_from_pn suf : forall pre n,
  suf <> [] -> wild_only_last suf = true ->
  (n = length suf \/ ((length suf <= n)%nat /\ last_is_wildcard suf = true)) ->
  print_nums_from (pre ++ suf) (length pre) n =
  (match pre with [] => [] | _ => [46%N] end) ++ pn suf.
Proof.
  induction suf as [|x t IH]; intros pre n Hne W Hn; [congruence|].
  destruct n as [|n]; [exfalso; destruct Hn as [Hn|[Hn _]]; simpl in Hn; lia|].
  cbn [print_nums_from]. rewrite get_num_app.
  assert (Sep : match length pre with O => [] | S _ => [46%N] end = match pre with [] => [] | _ => [46%N] end)
    by (destruct pre; reflexivity).
  rewrite Sep. f_equal.
  destruct t as [|y t'].
  - rewrite pn_one. destruct (Z.eqb_spec x wildcard) as [->|Hx]; [reflexivity|].
    assert (n = O).
    { destruct Hn as [Hn|[_ Hn]]; [simpl in Hn; lia|]. simpl in Hn. apply Z.eqb_eq in Hn. congruence. }
    subst n. cbn [print_nums_from]. unfold value_string. rewrite (proj2 (Z.eqb_neq x wildcard) Hx).
    rewrite app_nil_r. reflexivity.
  - rewrite pn_cons2. cbn [wild_only_last] in W. apply andb_true_iff in W. destruct W as [Wx Wt].
    apply negb_true_iff in Wx. rewrite Wx. f_equal.
    replace (pre ++ x :: y :: t') with ((pre ++ [x]) ++ y :: t') by (rewrite <- app_assoc; reflexivity).
    replace (S (length pre)) with (length (pre ++ [x])) by (rewrite app_length; simpl; lia).
    rewrite (IH (pre ++ [x]) n ltac:(discriminate) Wt).
    + destruct (pre ++ [x]) eqn:E; [apply app_eq_nil in E; destruct E; discriminate | reflexivity].
    + destruct Hn as [Hn|[Hn Hl]]; [left; simpl in *; lia | right; split; [simpl in *; lia | exact Hl]].
Qed.

Lemma print_nums_pn nums : nums <> [] -> wild_only_last nums = true ->
  ((3 <= length nums)%nat \/ last_is_wildcard nums = true) -> print_nums nums = pn nums.
Proof.
  intros Hne W H. unfold print_nums, at_least3.
  change (print_nums_from nums 0 (Nat.max 3 (length nums)))
    with (print_nums_from ([] ++ nums) (length (@nil Z)) (Nat.max 3 (length nums))).
  rewrite (print_nums_from_pn nums [] (Nat.max 3 (length nums)) Hne W); [reflexivity|].
  destruct H as [H|H]; [left; lia | right; split; [lia | exact H]].
Qed.

Lemma pad3_shape l : l <> [] -> (3 <= length (pad3 l))%nat \/ last_is_wildcard (pad3 l) = true.
Proof.
  intros Hne. unfold pad3. destruct (last_is_wildcard l) eqn:E; [right; exact E|].
  left. rewrite app_length, repeat_length. lia.
Qed.

Lemma last_is_wildcard_app_zeros l k : last_is_wildcard l = false -> last_is_wildcard (l ++ repeat 0 k) = false.
Proof.
  intros H. induction l as [|x l IH].
  - simpl. induction k as [|k IHk]; [reflexivity|]. simpl. destruct (repeat 0 k) eqn:E; [reflexivity | exact IHk].
  - destruct l as [|y l'].
    + simpl in *. destruct k; [exact H|]. simpl. clear IH.
      induction k as [|k IHk]; [reflexivity|]. simpl. destruct (repeat 0 k) eqn:E; [reflexivity | exact IHk].
    + change ((x :: y :: l') ++ repeat 0 k) with (x :: ((y :: l') ++ repeat 0 k)).
      change (last_is_wildcard (x :: (y :: l') ++ repeat 0 k)) with (last_is_wildcard ((y :: l') ++ repeat 0 k)).
      apply IH. exact H.
Qed.

Lemma pad3_idem l : l <> [] -> pad3 (pad3 l) = pad3 l.
Proof.
  intros Hne. destruct (last_is_wildcard l) eqn:E.
  - assert (P : pad3 l = l) by (unfold pad3; rewrite E; reflexivity). rewrite P. exact P.
  - assert (P : pad3 l = l ++ repeat 0 (3 - length l)) by (unfold pad3; rewrite E; reflexivity).
    rewrite P. unfold pad3. rewrite (last_is_wildcard_app_zeros l _ E).
    rewrite app_length, repeat_length.
    replace (3 - (length l + (3 - length l)))%nat with O by lia. apply app_nil_r.
Qed.

Lemma pad3_valid l : Forall valid_num l -> Forall valid_num (pad3 l).
Proof.
  intros V. unfold pad3. destruct (last_is_wildcard l); auto.
  apply Forall_app. split; auto. apply Forall_forall. intros x Hx. apply repeat_spec in Hx. subst.
  right. right. unfold infinity. lia.
Qed.

Lemma pad3_hd l : l <> [] -> hd 0 (pad3 l) = hd 0 l.
Proof. intros Hne. unfold pad3. destruct (last_is_wildcard l); auto. destruct l; [congruence | reflexivity]. Qed.

Lemma pad3_two l : l <> [] -> hd 0 l <> wildcard -> exists n1 n2 rest, pad3 l = n1 :: n2 :: rest.
Proof.
  intros Hne Hh. unfold pad3. destruct (last_is_wildcard l) eqn:E.
  - destruct l as [|x [|y t]]; [congruence| |eauto]. simpl in *. apply Z.eqb_eq in E. congruence.
  - destruct l as [|x [|y t]]; [congruence | | eauto]; simpl; eauto.
Qed.

(* ---------- what Parse stores is well formed ---------- *)
Record inv (nums : list Z) (e : option pep440) : Prop := {
  inv_two : exists n1 n2 rest, nums = n1 :: n2 :: rest;
  inv_valid : Forall valid_num nums;
  inv_hd : hd 0 nums <> wildcard;
  inv_shape : (3 <= length nums)%nat \/ last_is_wildcard nums = true;
  inv_pad : pad3 nums = nums;
  inv_ext : wf_e e
}.

Lemma parse_pypi_inv s v : parse_pypi s = Ok v -> inv (v_num v) (ext_of v).
Proof.
  unfold parse_pypi. destruct (possible_pypi s); [|discriminate]. cbn [negb].
  destruct (pep_init s) as [[[[[nums3 unc] vpre] ispre] e4]| | |] eqn:Init; cbn [bind]; try discriminate.
  intros H; inversion H; subst v; clear H. unfold ext_of. cbn [v_num v_ext].
  unfold pep_init in Init.
  destruct (negb (chars_ok (trim_space s))); [discriminate|].
  destruct (parse_epoch (trim_space s)) as [[e0 input1]| | |] eqn:Ep; cbn [bind] in Init; try discriminate.
  destruct (release (S (length (strip_v input1))) (strip_v input1) true) as [[nums rest]| | |] eqn:Rl;
    cbn [bind] in Init; try discriminate.
  destruct nums as [|n0 nums']; [discriminate|].
  destruct (parse_pre e0 rest) as [[e1 vpre'] rest1] eqn:Gpre.
  destruct (parse_post e1 rest1) as [e2 rest2] eqn:Gpost.
  destruct (parse_dev e2 rest2) as [e3 rest3] eqn:Gdev.
  destruct (parse_local e3 rest3) as [[e4' rest4]| | |] eqn:Gloc; cbn [bind] in Init; try discriminate.
  destruct rest4; [|discriminate]. inversion Init; subst. clear Init.
  destruct (release_valid _ _ _ _ _ Rl) as [V Hf]. specialize (Hf eq_refl). cbn iota in Hf.
  split.
  - apply pad3_two; [discriminate | exact Hf].
  - apply pad3_valid; auto.
  - rewrite pad3_hd by discriminate. exact Hf.
  - apply pad3_shape. discriminate.
  - apply pad3_idem. discriminate.
  - eapply parse_local_wf; [|eauto]. eapply parse_dev_wf; [|eauto]. eapply parse_post_wf; [|eauto].
    eapply parse_pre_wf; [|eauto]. eapply parse_epoch_wf; eauto.
Qed.

(* ---------- Canon is a rendering ---------- *)
Definition pre_of (x : pep440) : option (bytes * Z) :=
  match p_pre x with [] => None | w => Some (w, p_prenum x) end.
Definition post_of (x : pep440) : option Z := if p_post x then Some (p_postnum x) else None.
Definition dev_of (x : pep440) : option Z := if p_dev x then Some (p_devnum x) else None.
Definition loc_of (x : pep440) : option bytes := match p_local x with [] => None | l => Some l end.

Lemma canon_render nums e : print_nums nums = pn nums ->
  pep_canon nums e =
  render (p_epoch (make_ext e)) (pn nums) (pre_of (make_ext e)) (post_of (make_ext e)) (dev_of (make_ext e))
         (loc_of (make_ext e)).
Proof.
  intros P. destruct e as [x|].
  - destruct x as [ep pre pnum post ponum dev dnum loc].
    unfold pep_canon, render, r_epoch, r_tail, pre_of, post_of, dev_of, loc_of, r_pre, r_post, r_dev, r_local,
      s_dotpost, s_dotdev.
    cbn [make_ext p_epoch p_pre p_prenum p_post p_postnum p_dev p_devnum p_local]. rewrite P.
    destruct (ep =? 0), pre, post, dev, loc;
      repeat (rewrite <- app_assoc || rewrite app_nil_r || cbn [app]); reflexivity.
  - cbn [make_ext pep_canon]. rewrite P. unfold render. cbn. rewrite app_nil_r. reflexivity.
Qed.

Lemma pep_canon_make_ext nums e : pep_canon nums e = pep_canon nums (Some (make_ext e)).
Proof. destruct e; [reflexivity|]. cbn. rewrite !app_nil_r. reflexivity. Qed.

(* ---------- C10 ---------- *)
Lemma dom_inv nums e : c10_pypi_dom nums e = true ->
  wild_only_last nums = true /\ hd 0 nums <> infinity /\
  0 <= p_prenum (make_ext e) /\ 0 <= p_postnum (make_ext e) /\ 0 <= p_devnum (make_ext e).
Proof.
  unfold c10_pypi_dom. intros H.
  apply andb_true_iff in H. destruct H as [H H5]. apply andb_true_iff in H. destruct H as [H H4].
  apply andb_true_iff in H. destruct H as [H H3]. apply andb_true_iff in H. destruct H as [H1 H2].
  apply negb_true_iff in H2. apply Z.eqb_neq in H2. apply Z.leb_le in H3, H4, H5. auto.
Qed.

Lemma reparse_canon nums e : inv nums e -> c10_pypi_dom nums e = true ->
  exists v', parse_pypi (pep_canon nums e) = Ok v' /\ v_num v' = nums /\ make_ext (ext_of v') = make_ext e.
Proof.
  intros [(n1 & n2 & rest & En) V Hh Sh Pd W] D.
  destruct (dom_inv nums e D) as (Wl & Hi & Hpre & Hpost & Hdev).
  assert (Pn : print_nums nums = pn nums) by (apply print_nums_pn; auto; subst; discriminate).
  rewrite (canon_render nums e Pn).
  set (x := make_ext e) in *. unfold wf_e in W. fold x in W. destruct W as [We Wp Wq Wd Wlc].
  assert (Hn1 : 0 <= n1 < infinity).
  { subst nums. inversion V as [|? ? V1 _]; subst. cbn [hd] in Hh, Hi. destruct V1 as [E|[E|E]]; congruence || auto. }
  assert (Ok1 : pre_ok (pre_of x)).
  { unfold pre_of, pre_ok. destruct Wp as [[E _]|[E Hi64]].
    - rewrite E. exact Logic.I.
    - destruct (p_pre x) eqn:Ep; [exact Logic.I|]. split; auto. }
  assert (Ok2 : match post_of x with Some n => 0 <= n | None => True end)
    by (unfold post_of; destruct (p_post x); auto).
  assert (Ok3 : match dev_of x with Some n => 0 <= n | None => True end)
    by (unfold dev_of; destruct (p_dev x); auto).
  assert (Ok4 : loc_ok (loc_of x)).
  { unfold loc_of, loc_ok. destruct Wlc as [E|E]; [rewrite E; exact Logic.I|]. destruct (p_local x) eqn:El; auto. }
  subst nums.
  destruct (pep_init_render (p_epoch x) n1 n2 rest (pre_of x) (post_of x) (dev_of x) (loc_of x)
              We Hn1 V Ok1 Ok2 Ok3 Ok4) as [Pos Init].
  unfold parse_pypi. rewrite Pos. cbn [negb]. rewrite Init. cbn [bind].
  eexists. split; [reflexivity|]. cbn [v_num]. split; [exact Pd|].
  unfold ext_of. cbn [v_ext].
  (* the extension read back is the one printed *)
  destruct Wq as [Wq0 Wqi], Wd as [Wd0 Wdi].
  unfold ext_after, pre_of, post_of, dev_of, loc_of.
  assert (G1 : gv (p_prenum x) = p_prenum x)
    by (apply gv_small; destruct Wp as [[_ E]|[_ Hi64]]; [rewrite E; unfold two63; lia | unfold int64 in Hi64; lia]).
  assert (G2 : gv (p_postnum x) = p_postnum x) by (apply gv_small; unfold int64 in Wqi; lia).
  assert (G3 : gv (p_devnum x) = p_devnum x) by (apply gv_small; unfold int64 in Wdi; lia).
  assert (M0 : make_ext (if p_epoch x =? 0 then None else Some (set_epoch zero_pep440 (p_epoch x))) =
               set_epoch zero_pep440 (p_epoch x)).
  { destruct (Z.eqb_spec (p_epoch x) 0) as [E|E]; [rewrite E|]; reflexivity. }
  assert (Epre : p_pre x = [] -> p_prenum x = 0)
    by (intros E; destruct Wp as [[_ E']|[[E'|[E'|E']] _]]; auto; congruence).
  clearbody x. clear - G1 G2 G3 M0 Epre Wq0 Wd0.
  destruct x as [ep pre pnum post ponum dev dnum loc].
  cbn [p_epoch p_pre p_prenum p_post p_postnum p_dev p_devnum p_local] in *.
  destruct pre as [|w0 w']; [rewrite (Epre eq_refl)|];
    (destruct post; [|rewrite (Wq0 eq_refl)]);
    (destruct dev; [|rewrite (Wd0 eq_refl)]);
    destruct loc; cbn [make_ext]; rewrite ?G1, ?G2, ?G3, ?M0; cbn [make_ext]; rewrite ?M0; reflexivity.
Qed.

Lemma canon_pypi v e : v_ext v = Pep440Ext e -> Compare.canon true v = pep_canon (v_num v) e.
Proof. intros E. unfold Compare.canon. rewrite E. reflexivity. Qed.

Lemma pypi_cmp_same_ext n e e' : make_ext e = make_ext e' -> pypi_cmp (n, e) (n, e') = 0.
Proof.
  intros E. rewrite pypi_cmp_lex.
  assert (X : pypi_lex (n, e) (n, e') = pypi_lex (n, e) (n, e)).
  { unfold pypi_lex, lex, c_epoch, c_nums, c_rank, c_prenum, c_local, c_post, c_dev. cbn [fst snd].
    change (dflt e') with (make_ext e'). change (dflt e) with (make_ext e). rewrite <- E. reflexivity. }
  rewrite X. rewrite <- pypi_cmp_lex. apply (cl_refl _ _ pypi_cmp_laws). exact I.
Qed.

Definition dom_v (v : version) : bool := c10_pypi_dom (v_num v) (ext_of v).

Theorem c10_reparse s v : parse_pypi s = Ok v -> dom_v v = true ->
  exists v', parse_pypi (Compare.canon true v) = Ok v' /\ vcmp v v' = 0 /\
             v_num v' = v_num v /\ make_ext (ext_of v') = make_ext (ext_of v).
Proof.
  intros P D. destruct (parse_pypi_shape s v P) as (_ & _ & _ & e & Ee).
  pose proof (parse_pypi_inv s v P) as Inv. unfold dom_v, ext_of in *. rewrite Ee in *.
  destruct (reparse_canon (v_num v) e Inv D) as (v' & P' & Nn & Ex).
  exists v'. rewrite (canon_pypi v e Ee). split; auto. split; auto.
  destruct (parse_pypi_is_pypi _ _ P) as [Pv _], (parse_pypi_is_pypi _ _ P') as [Pv' _].
  rewrite (vcmp_pypi v v' Pv Pv'). rewrite Nn. unfold ext_of at 1. rewrite Ee.
  apply pypi_cmp_same_ext. symmetry. exact Ex.
Qed.

Theorem c10_idem s v v' : parse_pypi s = Ok v -> dom_v v = true ->
  parse_pypi (Compare.canon true v) = Ok v' -> Compare.canon true v' = Compare.canon true v.
Proof.
  intros P D P'. destruct (c10_reparse s v P D) as (w & Pw & _ & Nn & Ex).
  rewrite P' in Pw. inversion Pw; subst w.
  destruct (parse_pypi_shape s v P) as (_ & _ & _ & e & Ee).
  destruct (parse_pypi_shape _ v' P') as (_ & _ & _ & e' & Ee').
  rewrite (canon_pypi v e Ee), (canon_pypi v' e' Ee'). rewrite Nn.
  unfold ext_of in Ex. rewrite Ee, Ee' in Ex.
  rewrite (pep_canon_make_ext _ e), (pep_canon_make_ext _ e'). rewrite Ex. reflexivity.
Qed.

Theorem c10_inj s1 s2 v1 v2 : parse_pypi s1 = Ok v1 -> parse_pypi s2 = Ok v2 ->
  dom_v v1 = true -> dom_v v2 = true ->
  Compare.canon true v1 = Compare.canon true v2 -> vcmp v1 v2 = 0.
Proof.
  intros P1 P2 D1 D2 C.
  destruct (c10_reparse s1 v1 P1 D1) as (w1 & Pw1 & _ & N1 & X1).
  destruct (c10_reparse s2 v2 P2 D2) as (w2 & Pw2 & _ & N2 & X2).
  rewrite C in Pw1. rewrite Pw2 in Pw1. inversion Pw1; subst w2.
  destruct (parse_pypi_is_pypi _ _ P1) as [Q1 _], (parse_pypi_is_pypi _ _ P2) as [Q2 _].
  rewrite (vcmp_pypi v1 v2 Q1 Q2). rewrite <- N1, <- N2.
  apply pypi_cmp_same_ext. congruence.
Qed.

(* the domain contains versions with every kind of attachment, wildcards and infinity *)
Lemma c10_dom_examples :
  forallb (fun s => match parse_pypi s with Ok v => dom_v v | _ => false end)
    [[49;33;50;46;48;114;99;49;46;112;111;115;116;50;46;100;101;118;51;43;97;46;49];   (* 1!2.0rc1.post2.dev3+a.1 *)
     [49;46;42];                                                                         (* 1.* *)
     [49;46;226;136;158;97;48]]%N = true.                                                (* 1.<inf>a0 *)
Proof. vm_compute. reflexivity. Qed.
