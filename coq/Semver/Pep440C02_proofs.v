(* C02 for PyPI at the level of the comparators: on the domain c02_pypi_dom the Go
   comparison (pep_compare on what Parse stores) has the sign of the reference comparison
   (packaging's _cmpkey order).  The link from strings to what Parse stores is in
   Pep440Link_proofs.v. *)
From Coq Require Import List ZArith NArith Lia Bool.
From DepsDev Require Import Lib.Base Lib.Order Semver.Version Semver.Pep440 Semver.Pep440Parse
  Spec.Pep440Spec Semver.Pep440Abs Semver.Pep440_proofs.
Import ListNotations.
Local Open Scope Z_scope.

(* ---------- release numbers: zero padding vs trailing zeros removed ---------- *)
Definition allz (l : list Z) : bool := forallb (fun x => x =? 0) l.

Lemma trim0_nil_iff l : trim0 l = [] <-> allz l = true.
Proof.
  induction l as [|x t IH]; simpl; [tauto|].
  destruct (trim0 t) as [|y t'] eqn:E.
  - destruct (Z.eqb_spec x 0); simpl.
    + split; intros _; [apply IH; reflexivity | reflexivity].
    + split; intros H; discriminate.
  - split; intros H; [discriminate|].
    apply andb_true_iff in H. destruct H as [_ H]. apply IH in H. discriminate.
Qed.

Lemma trim0_cons x t : trim0 (x :: t) = if allz (x :: t) then [] else x :: trim0 t.
Proof.
  destruct (allz (x :: t)) eqn:A.
  - apply trim0_nil_iff; auto.
  - simpl. destruct (trim0 t) as [|y t'] eqn:E; auto.
    destruct (Z.eqb_spec x 0); auto.
    exfalso. assert (allz t = true) by (apply trim0_nil_iff; auto).
    simpl in A. subst x. simpl in A. congruence.
Qed.

Lemma allz_app_zeros l k : allz (l ++ repeat 0 k) = allz l.
Proof.
  unfold allz. rewrite forallb_app. replace (forallb (fun x => x =? 0) (repeat 0 k)) with true.
  - apply andb_true_r.
  - symmetry. induction k; simpl; auto.
Qed.

Lemma trim0_app_zeros l k : trim0 (l ++ repeat 0 k) = trim0 l.
Proof.
  induction l as [|x t IH].
  - simpl. apply trim0_nil_iff. apply (allz_app_zeros [] k).
  - rewrite <- app_comm_cons. rewrite !trim0_cons. rewrite app_comm_cons, allz_app_zeros.
    destruct (allz (x :: t)); auto. rewrite IH. reflexivity.
Qed.

Definition nonneg (l : list Z) : Prop := Forall (fun x => 0 <= x) l.

Lemma cmpZ_cases x y :
  (x < y /\ cmpZ x y = -1) \/ (x = y /\ cmpZ x y = 0) \/ (x > y /\ cmpZ x y = 1).
Proof. unfold cmpZ. destruct (Z.compare_spec x y); [right; left | left | right; right]; split; auto; lia. Qed.

Lemma list_lex_pad_trim0 l1 : forall l2, length l1 = length l2 -> nonneg l1 -> nonneg l2 ->
  list_lex cmpZ 1 l1 l2 = list_lex cmpZ (-1) (trim0 l1) (trim0 l2).
Proof.
  induction l1 as [|x t1 IH]; intros [|y t2] L N1 N2; try discriminate; [reflexivity|].
  inversion N1 as [|? ? Hx N1']; inversion N2 as [|? ? Hy N2']; subst.
  rewrite list_lex_cons. rewrite (IH t2) by (auto; simpl in L; lia).
  rewrite !trim0_cons.
  destruct (allz (x :: t1)) eqn:A1, (allz (y :: t2)) eqn:A2.
  - simpl in A1, A2. apply andb_true_iff in A1, A2. destruct A1 as [X1 T1], A2 as [X2 T2].
    apply Z.eqb_eq in X1, X2. subst.
    rewrite (proj2 (trim0_nil_iff t1) T1), (proj2 (trim0_nil_iff t2) T2). reflexivity.
  - simpl in A1. apply andb_true_iff in A1. destruct A1 as [X1 T1]. apply Z.eqb_eq in X1. subst x.
    rewrite (proj2 (trim0_nil_iff t1) T1). simpl list_lex at 2.
    destruct (cmpZ_cases 0 y) as [[H ->]|[[H ->]|[H ->]]]; try reflexivity; try lia.
    subst y. rewrite nz_0. simpl in A2.
    destruct (trim0 t2) eqn:E; [|reflexivity].
    assert (allz t2 = true) by (apply trim0_nil_iff; auto). congruence.
  - simpl in A2. apply andb_true_iff in A2. destruct A2 as [X2 T2]. apply Z.eqb_eq in X2. subst y.
    rewrite (proj2 (trim0_nil_iff t2) T2). simpl list_lex at 2.
    destruct (cmpZ_cases x 0) as [[H ->]|[[H ->]|[H ->]]]; try reflexivity; try lia.
    subst x. rewrite nz_0. simpl in A1.
    destruct (trim0 t1) eqn:E; [|reflexivity].
    assert (allz t1 = true) by (apply trim0_nil_iff; auto). congruence.
  - rewrite list_lex_cons. reflexivity.
Qed.

Lemma nonneg_app_zeros l k : nonneg l -> nonneg (l ++ repeat 0 k).
Proof.
  intros H. apply Forall_app. split; auto. induction k; simpl; constructor; auto; lia.
Qed.

Lemma compare_nums_trim0 a b : nonneg a -> nonneg b ->
  compare_nums a b = list_lex cmpZ (-1) (trim0 a) (trim0 b).
Proof.
  intros Na Nb. set (n := Nat.max (length a) (length b)).
  rewrite (compare_nums_pad a b n) by lia.
  unfold padz. rewrite list_lex_pad_trim0.
  - rewrite !trim0_app_zeros. reflexivity.
  - rewrite !app_length, !repeat_length. lia.
  - apply nonneg_app_zeros; auto.
  - apply nonneg_app_zeros; auto.
Qed.

Lemma last_is_wildcard_nonneg l : nonneg l -> last_is_wildcard l = false.
Proof.
  induction 1 as [|x t Hx Ht IH]; simpl; auto.
  destruct t; auto. unfold wildcard. destruct (Z.eqb_spec x (-1)); auto; lia.
Qed.

Lemma pad3_nonneg l : nonneg l -> pad3 l = l ++ repeat 0 (3 - length l).
Proof. intros H. unfold pad3. rewrite (last_is_wildcard_nonneg l H). reflexivity. Qed.

Lemma compare_nums_go_nums a b : nonneg a -> nonneg b ->
  compare_nums (pad3 a) (pad3 b) = list_lex cmpZ (-1) (trim0 a) (trim0 b).
Proof.
  intros Na Nb. rewrite (pad3_nonneg a Na), (pad3_nonneg b Nb).
  rewrite compare_nums_trim0 by (apply nonneg_app_zeros; auto).
  rewrite !trim0_app_zeros. reflexivity.
Qed.

(* ---------- local versions ---------- *)
Lemma local_elem_app x : forall r, ndots x = O -> local_elem (x ++ 46%N :: r) [] = (x, r).
Proof.
  unfold ndots. induction x as [|c x IH]; intros r H; simpl.
  - reflexivity.
  - simpl in H. destruct (N.eqb c 46) eqn:E; [simpl in H; discriminate|].
    rewrite local_elem_acc. rewrite (IH r H). reflexivity.
Qed.

Lemma ndots_app a b : ndots (a ++ b) = (ndots a + ndots b)%nat.
Proof. unfold ndots. rewrite filter_app, app_length. reflexivity. Qed.

Lemma join_dots_cons2 x y t : join_dots (x :: y :: t) = x ++ 46%N :: join_dots (y :: t).
Proof. reflexivity. Qed.

Lemma join_dots_one x : join_dots [x] = x.
Proof. simpl. apply app_nil_r. Qed.

Lemma split_join l : l <> [] -> Forall (fun t => ndots t = O) l -> split_dots (join_dots l) = l.
Proof.
  induction l as [|x t IH]; intros Hne Hd; [congruence|].
  inversion Hd as [|? ? Hx Ht]; subst.
  destruct t as [|y t].
  - rewrite join_dots_one. apply split_dots_nodot; auto.
  - rewrite join_dots_cons2.
    assert (Hn : exists k, ndots (x ++ 46%N :: join_dots (y :: t)) = S k).
    { rewrite ndots_app. rewrite Hx. simpl. unfold ndots at 1. simpl. eexists; reflexivity. }
    destruct Hn as [k Hk].
    rewrite (split_dots_dot _ k Hk). rewrite (local_elem_app x _ Hx). simpl fst. simpl snd.
    f_equal. apply IH; [discriminate | auto].
Qed.

Lemma alnum_nodots t : forallb sp_alnum t = true -> ndots t = O.
Proof.
  unfold ndots. induction t as [|c t IH]; simpl; auto.
  intros H. apply andb_true_iff in H. destruct H as [Hc Ht].
  destruct (N.eqb_spec c 46) as [->|]; [discriminate|]. auto.
Qed.

Lemma digits_val_dec x : forall acc, forallb is_digit x = true -> digits_val x acc = Some (dec_val x acc).
Proof.
  induction x as [|c x IH]; intros acc H; simpl; auto.
  simpl in H. apply andb_true_iff in H. destruct H as [Hc Hx]. rewrite Hc. apply IH; auto.
Qed.

Lemma to_lower_noupper x : has_upper x = false -> to_lower x = x.
Proof.
  unfold has_upper, to_lower. induction x as [|c x IH]; simpl; auto.
  intros H. apply orb_false_iff in H. destruct H as [Hc Hx].
  unfold ascii_lower. rewrite Hc. f_equal; auto.
Qed.

Definition seg_good (t : bytes) : Prop :=
  seg_ok t = true /\ has_upper t = false /\ local_seg_width t = true.

Lemma all_digits_seg t : seg_ok t = true -> all_digits t = all_digits_b t.
Proof.
  unfold seg_ok, all_digits, all_digits_b. intros H. apply andb_true_iff in H. destruct H as [H _].
  rewrite H. apply andb_true_r.
Qed.

Lemma parse_uint_sat_seg t : all_digits_b t = true -> local_seg_width t = true -> parse_uint_sat t = sp_int t.
Proof.
  unfold parse_uint_sat, local_seg_width, sp_int, all_digits_b. intros D W. rewrite D in W.
  rewrite (digits_val_dec t 0 D). unfold max_uint64 in W.
  destruct (Z.ltb_spec 18446744073709551615 (dec_val t 0)); auto. apply Z.leb_le in W. lia.
Qed.

Lemma local_elem_compare_seg x y : seg_good x -> seg_good y ->
  local_elem_compare x y = seg_cmp (norm_seg x) (norm_seg y).
Proof.
  intros (Ox & Ux & Wx) (Oy & Uy & Wy).
  unfold local_elem_compare, norm_seg. rewrite (all_digits_seg x Ox), (all_digits_seg y Oy).
  destruct (all_digits_b x) eqn:Dx, (all_digits_b y) eqn:Dy; simpl; try reflexivity.
  - rewrite (parse_uint_sat_seg x Dx Wx), (parse_uint_sat_seg y Dy Wy). reflexivity.
  - rewrite (to_lower_noupper x Ux), (to_lower_noupper y Uy). reflexivity.
Qed.

Lemma list_lex_map_ext {A B} (c : A -> A -> Z) (c' : B -> B -> Z) (f : A -> B) sh l1 : forall l2,
  (forall x y, In x l1 -> In y l2 -> c x y = c' (f x) (f y)) ->
  list_lex c sh l1 l2 = list_lex c' sh (map f l1) (map f l2).
Proof.
  induction l1 as [|x t1 IH]; intros [|y t2] H; simpl; auto.
  rewrite (H x y) by (simpl; auto). rewrite (IH t2); auto.
  intros; apply H; simpl; auto.
Qed.

Lemma seg_good_nodots t : seg_good t -> ndots t = O.
Proof.
  intros (O & _ & _). unfold seg_ok in O. apply andb_true_iff in O. destruct O as [_ O].
  apply alnum_nodots; auto.
Qed.

Lemma local_agree la lb : la <> [] -> lb <> [] -> Forall seg_good la -> Forall seg_good lb ->
  local_compare (join_dots la) (join_dots lb) = list_lex seg_cmp (-1) (map norm_seg la) (map norm_seg lb).
Proof.
  intros Na Nb Ga Gb.
  rewrite local_compare_list_lex.
  rewrite (split_join la Na), (split_join lb Nb).
  - apply list_lex_map_ext. intros x y Hx Hy. apply local_elem_compare_seg.
    + rewrite Forall_forall in Ga. auto.
    + rewrite Forall_forall in Gb. auto.
  - eapply Forall_impl; [|exact Gb]. apply seg_good_nodots.
  - eapply Forall_impl; [|exact Ga]. apply seg_good_nodots.
Qed.

Lemma seg_cmp_range a b : seg_cmp a b = -1 \/ seg_cmp a b = 0 \/ seg_cmp a b = 1.
Proof.
  destruct a, b; simpl; auto.
  - apply cmpZ_range.
  - revert s0. induction s as [|x s IH]; intros [|y s0]; simpl; auto.
    destruct (N.compare x y); auto.
Qed.

Lemma list_lex_range {A} (c : A -> A -> Z) l1 : forall l2,
  (forall x y, c x y = -1 \/ c x y = 0 \/ c x y = 1) ->
  list_lex c (-1) l1 l2 = -1 \/ list_lex c (-1) l1 l2 = 0 \/ list_lex c (-1) l1 l2 = 1.
Proof.
  induction l1 as [|x t1 IH]; intros [|y t2] H; simpl; auto.
  destruct (H x y) as [E|[E|E]]; rewrite E; simpl; auto.
Qed.

(* ---------- what the Go comparator reads from go_ext p ---------- *)
Definition rG (p : pv) : Z :=
  match s_pre p with
  | Some (k, _) => k + 1
  | None =>
      match s_post p with
      | Some _ => rk_post
      | None => match s_dev p with
                | Some _ => rk_dev
                | None => match s_local p with Some _ => rk_local | None => rk_empty end
                end
      end
  end.

Definition loc_text (p : pv) : bytes := match s_local p with Some l => join_dots l | None => [] end.

Lemma join_dots_nonempty l : l <> [] -> Forall (fun t => seg_ok t = true) l -> bytes_eqb (join_dots l) [] = false.
Proof.
  intros Hne Hs. destruct l as [|x t]; [congruence|]. inversion Hs as [|? ? Hx _]; subst.
  unfold seg_ok in Hx. apply andb_true_iff in Hx. destruct Hx as [Hx _].
  destruct x as [|c x]; [discriminate|]. reflexivity.
Qed.

Record pv_wf (p : pv) : Prop := {
  wf_epoch : 0 <= s_epoch p;
  wf_rel : nonneg (s_release p);
  wf_pre : forall k n, s_pre p = Some (k, n) -> 0 <= k <= 2 /\ 0 <= n;
  wf_post : forall n, s_post p = Some n -> 0 <= n;
  wf_dev : forall n, s_dev p = Some n -> 0 <= n;
  wf_local : forall l, s_local p = Some l -> l <> [] /\ Forall (fun t => seg_ok t = true) l
}.

Lemma pv_wfb_wf p : pv_wfb p = true -> pv_wf p.
Proof.
  unfold pv_wfb. intros H.
  repeat (apply andb_true_iff in H; let H' := fresh "W" in destruct H as [H H']).
  split.
  - apply Z.leb_le; auto.
  - unfold nonneg. apply Forall_forall. intros x Hx. rewrite forallb_forall in W4. apply Z.leb_le. auto.
  - intros k n E. rewrite E in W2.
    repeat (apply andb_true_iff in W2; let H' := fresh "V" in destruct W2 as [W2 H']).
    apply Z.leb_le in W2, V, V0. lia.
  - intros n E. rewrite E in W1. apply Z.leb_le; auto.
  - intros n E. rewrite E in W0. apply Z.leb_le; auto.
  - intros l E. rewrite E in W. apply andb_true_iff in W. destruct W as [L S]. split.
    + destruct l; [discriminate | discriminate].
    + apply Forall_forall. rewrite forallb_forall in S. auto.
Qed.

Lemma rank_go_ext p : pv_wf p -> pep_rank (go_ext p) = rG p.
Proof.
  intros W. unfold pep_rank, rG, go_ext. simpl.
  destruct (s_pre p) as [[k n]|] eqn:Ep.
  - destruct (wf_pre p W k n Ep) as [Hk _].
    assert (K : k = 0 \/ k = 1 \/ k = 2) by lia. destruct K as [-> | [-> | ->]]; reflexivity.
  - simpl. destruct (s_post p); [reflexivity|]. destruct (s_dev p); [reflexivity|].
    destruct (s_local p) as [l|] eqn:El; [|reflexivity].
    destruct (wf_local p W l El) as [Hne Hs]. rewrite (join_dots_nonempty l Hne Hs). reflexivity.
Qed.

Lemma is_pre_rank_rG p : pv_wf p ->
  is_pre_rank (rG p) = match s_pre p with Some _ => true | None => false end.
Proof.
  intros W. unfold rG. destruct (s_pre p) as [[k n]|] eqn:Ep.
  - destruct (wf_pre p W k n Ep) as [Hk _].
    assert (K : k = 0 \/ k = 1 \/ k = 2) by lia. destruct K as [-> | [-> | ->]]; reflexivity.
  - destruct (s_post p); [reflexivity|]. destruct (s_dev p); [reflexivity|]. destruct (s_local p); reflexivity.
Qed.

Lemma k_prenum_go p : pv_wf p -> k_prenum (go_ext p) = pre_n p.
Proof.
  intros W. unfold k_prenum. rewrite (rank_go_ext p W), (is_pre_rank_rG p W). unfold pre_n, go_ext. simpl.
  destruct (s_pre p) as [[k n]|]; reflexivity.
Qed.

Lemma k_postnum_go p : pv_wf p -> k_postnum (go_ext p) = post_n p.
Proof.
  intros W. unfold k_postnum. rewrite (rank_go_ext p W), (is_pre_rank_rG p W). unfold post_n, go_ext, rG. simpl.
  destruct (s_pre p) as [[k n]|]; simpl; [destruct (s_post p); reflexivity|].
  destruct (s_post p); [reflexivity|]. destruct (s_dev p); [reflexivity|]. destruct (s_local p); reflexivity.
Qed.

Lemma k_dev_go p : k_dev (go_ext p) = s_dev p.
Proof. unfold k_dev, go_ext. simpl. destruct (s_dev p); reflexivity. Qed.

(* on the shape part of the domain the local text is read whenever it is present *)
Lemma k_local_go p : pv_wf p -> c02_dom_shape p = true -> k_local (go_ext p) = loc_text p.
Proof.
  intros W D. unfold k_local. rewrite (rank_go_ext p W), (is_pre_rank_rG p W). unfold loc_text, go_ext, rG. simpl.
  unfold c02_dom_shape in D. apply andb_true_iff in D. destruct D as [D _]. revert D.
  destruct (s_local p) as [l|]; intros D.
  - revert D. destruct (s_pre p) as [[k n]|]; [reflexivity|]. destruct (s_post p); [discriminate|]. destruct (s_dev p); [discriminate|]. reflexivity.
  - destruct (s_pre p) as [[k n]|]; simpl; [reflexivity|].
    destruct (s_post p); [reflexivity|]. destruct (s_dev p); reflexivity.
Qed.

(* ---------- the comparison ---------- *)
Lemma sgn_nz a t : (a = -1 \/ a = 0 \/ a = 1) -> Z.sgn (nz a t) = nz a (Z.sgn t).
Proof. intros [-> | [-> | ->]]; reflexivity. Qed.

Lemma dom_local_good p l : pv_wf p -> c02_pypi_dom p = true -> s_local p = Some l ->
  l <> [] /\ Forall seg_good l.
Proof.
  intros W D E. destruct (wf_local p W l E) as [Hne Hs]. split; auto.
  unfold c02_pypi_dom in D. apply andb_true_iff in D. destruct D as [Dw Ds].
  unfold c02_dom_width in Dw. repeat (apply andb_true_iff in Dw; destruct Dw as [Dw ?]).
  unfold c02_dom_shape in Ds. apply andb_true_iff in Ds. destruct Ds as [Ds _].
  rewrite E in *. apply andb_true_iff in Ds. destruct Ds as [_ Ds].
  apply Forall_forall. intros t Ht. unfold seg_good.
  rewrite Forall_forall in Hs. rewrite forallb_forall in Ds. rewrite forallb_forall in H.
  specialize (Hs t Ht). specialize (Ds t Ht). specialize (H t Ht).
  repeat split; auto. apply negb_true_iff in Ds. auto.
Qed.

Local Arguments cmpZ : simpl never.
Local Arguments local_compare : simpl never.
Local Arguments list_lex : simpl never.

Ltac chain :=
  repeat (match goal with
          | |- context [cmpZ ?x ?y] =>
              let H := fresh "H" in let E := fresh "E" in
              destruct (cmpZ_cases x y) as [[H E]|[[H E]|[H E]]]; rewrite E; clear E;
              cbn [nz Z.eqb negb Z.sgn Z.opp Pos.eqb]
          end);
  try reflexivity; try lia.

Lemma tail_agree pa pb : pv_wf pa -> pv_wf pb -> c02_pypi_dom pa = true -> c02_pypi_dom pb = true ->
  Z.sgn (nz (cmpZ (rG pa) (rG pb))
        (nz (cmpZ (pre_n pa) (pre_n pb))
        (nz (local_compare (loc_text pa) (loc_text pb))
        (nz (cmpZ (post_n pa) (post_n pb))
            (opt_cmp cmpZ 1 (s_dev pa) (s_dev pb))))))
  = nz (cmpZ (pre_rank pa) (pre_rank pb))
   (nz (cmpZ (pre_n pa) (pre_n pb))
   (nz (cmpZ (post_rank pa) (post_rank pb))
   (nz (cmpZ (post_n pa) (post_n pb))
   (nz (cmpZ (dev_rank pa) (dev_rank pb))
   (nz (cmpZ (dev_n pa) (dev_n pb))
       (opt_cmp (list_lex seg_cmp (-1)) (-1) (local_key pa) (local_key pb))))))).
Proof.
  intros Wa Wb Da Db.
  (* the local comparison, when both have one *)
  assert (HL : forall la lb, s_local pa = Some la -> s_local pb = Some lb ->
               local_compare (join_dots la) (join_dots lb) = list_lex seg_cmp (-1) (map norm_seg la) (map norm_seg lb)).
  { intros la lb Ea Eb. destruct (dom_local_good pa la Wa Da Ea), (dom_local_good pb lb Wb Db Eb).
    apply local_agree; auto. }
  pose proof (wf_pre pa Wa) as Pa. pose proof (wf_pre pb Wb) as Pb.
  pose proof (wf_post pa Wa) as Qa. pose proof (wf_post pb Wb) as Qb.
  pose proof (wf_dev pa Wa) as Va. pose proof (wf_dev pb Wb) as Vb.
  unfold c02_pypi_dom in Da, Db.
  apply andb_true_iff in Da, Db. destruct Da as [_ Da], Db as [_ Db].
  unfold c02_dom_shape in Da, Db.
  unfold rG, pre_n, loc_text, post_n, pre_rank, post_rank, dev_rank, dev_n, local_key.
  destruct pa as [ea ra prea posta deva loca], pb as [eb rb preb postb devb locb].
  cbn [s_epoch s_release s_pre s_post s_dev s_local] in *.
  destruct prea as [[ka na]|], posta as [pa'|], deva as [da|], loca as [la|];
    cbn in Da; try discriminate Da;
    destruct preb as [[kb nb]|], postb as [pb'|], devb as [db|], locb as [lb|];
    cbn in Db; try discriminate Db;
    repeat match goal with
           | H : forall k n, Some (?a, ?b) = Some (k, n) -> _ |- _ => specialize (H _ _ eq_refl)
           | H : forall n, Some ?a = Some n -> _ |- _ => specialize (H _ eq_refl)
           | H : forall k n, None = Some _ -> _ |- _ => clear H
           | H : forall n, None = Some _ -> _ |- _ => clear H
           end;
    cbn [opt_cmp Z.opp];
    try (rewrite (HL _ _ eq_refl eq_refl);
         let T := fresh "T" in
         generalize (list_lex_range seg_cmp (map norm_seg la) (map norm_seg lb) seg_cmp_range);
         generalize (list_lex seg_cmp (-1) (map norm_seg la) (map norm_seg lb)); intros T HT);
    try clear HL;
    rewrite ?local_compare_refl;
    unfold rk_post, rk_dev, rk_local, rk_empty;
    chain;
    try (destruct HT as [-> | [-> | ->]]; reflexivity).
Qed.

Lemma list_lex_cmpZ_range l1 l2 :
  list_lex cmpZ (-1) l1 l2 = -1 \/ list_lex cmpZ (-1) l1 l2 = 0 \/ list_lex cmpZ (-1) l1 l2 = 1.
Proof. apply list_lex_range. apply cmpZ_range. Qed.

Lemma dom_shape_of p : c02_pypi_dom p = true -> c02_dom_shape p = true.
Proof. unfold c02_pypi_dom. intros H. apply andb_true_iff in H. tauto. Qed.

(* On the domain, the Go comparison of what Parse stores has the sign of the reference comparison. *)
Theorem c02_compare_abs va vb pa pb :
  pv_wf pa -> pv_wf pb -> c02_pypi_dom pa = true -> c02_pypi_dom pb = true ->
  abs_rel va pa -> abs_rel vb pb ->
  Z.sgn (pypi_cmp va vb) = spec_compare pa pb.
Proof.
  intros Wa Wb Da Db [Na Ea] [Nb Eb].
  rewrite pypi_cmp_lex. unfold pypi_lex, spec_compare. rewrite !lex_nz.
  unfold c_epoch, c_nums, c_rank, c_prenum, c_local, c_post, c_dev, on.
  change (dflt (snd va)) with (make_ext (snd va)). change (dflt (snd vb)) with (make_ext (snd vb)).
  rewrite Na, Nb, Ea, Eb.
  rewrite (rank_go_ext pa Wa), (rank_go_ext pb Wb), (k_prenum_go pa Wa), (k_prenum_go pb Wb),
          (k_local_go pa Wa (dom_shape_of pa Da)), (k_local_go pb Wb (dom_shape_of pb Db)),
          (k_postnum_go pa Wa), (k_postnum_go pb Wb), (k_dev_go pa), (k_dev_go pb).
  unfold go_nums. rewrite (compare_nums_go_nums _ _ (wf_rel pa Wa) (wf_rel pb Wb)).
  change (p_epoch (go_ext pa)) with (s_epoch pa). change (p_epoch (go_ext pb)) with (s_epoch pb).
  rewrite sgn_nz by apply cmpZ_range. f_equal.
  rewrite sgn_nz by apply list_lex_cmpZ_range. f_equal.
  apply tail_agree; auto.
Qed.
