(* Totality of the constraint / span / set model (C04), part 1: the invariant on versions, the
   combinator used to compose results, compare, the tokenizer.

   good P r : the Go call modelled by r returns (a value satisfying P) or an error; it neither
   panics nor runs out of model fuel. *)
From Coq Require Import Lia.
From DepsDev Require Import Lib.Base Lib.Order Semver.Version Semver.Maven Semver.Gem Semver.Pep440 Semver.Compare
     Semver.Maven_proofs Semver.Span Semver.Interval Semver.Token Gen.SemverTables.
Local Open Scope Z_scope.

Definition good {A} (P : A -> Prop) (r : res A) : Prop :=
  match r with Ok x => P x | Err _ => True | Panic _ => False | OutOfFuel => False end.

Definition total {A} (r : res A) : Prop := good (fun _ => True) r.

Lemma good_ok {A} (P : A -> Prop) x : P x -> good P (Ok x).
Proof. auto. Qed.
Lemma good_err {A} (P : A -> Prop) e : good P (Err e).
Proof. exact I. Qed.
Lemma good_weaken {A} (P Q : A -> Prop) r : (forall x, P x -> Q x) -> good P r -> good Q r.
Proof. destruct r; simpl; auto. Qed.
Lemma good_bind {A B} (P : A -> Prop) (Q : B -> Prop) r f :
  good P r -> (forall x, P x -> good Q (f x)) -> good Q (bind r f).
Proof. destruct r; simpl; auto; tauto. Qed.
Lemma good_total {A} (P : A -> Prop) r : good P r -> total r.
Proof. apply good_weaken; auto. Qed.
Lemma good_inv {A} (P : A -> Prop) r x : good P r -> r = Ok x -> P x.
Proof. intros G ->. exact G. Qed.

(* ---------------------------------------------------------------- the invariant on versions *)
Definition okcat_b (e : mvn_elem) : bool := (cat_of e =? cat_numeric) || (cat_of e =? cat_qualifier).

(* the extension, if any, is the one of the version's system, and Maven elements do not start
   with a separator *)
Definition ext_ok (sys : system) (e : extension) : bool :=
  match e with
  | NoExt => true
  | MavenExt l => sys_eqb sys SMaven && forallb okcat_b l
  | Pep440Ext _ => sys_eqb sys SPyPI
  | GemExt _ => sys_eqb sys SRubyGems
  end.

Definition nonempty_b (s : bytes) : bool := match s with [] => false | _ => true end.

Definition ver_ok (v : version) : bool := ext_ok (v_sys v) (v_ext v) && forallb nonempty_b (v_pre v).

Lemma okcat_b_spec l : forallb okcat_b l = true -> Forall okcat l.
Proof.
  rewrite forallb_forall, Forall_forall. intros H e Ie. specialize (H e Ie). unfold okcat_b, okcat in *.
  apply orb_prop in H. destruct H as [H|H]; apply Z.eqb_eq in H; auto.
Qed.

Lemma sys_eqb_true' a b : sys_eqb a b = true -> a = b.
Proof. unfold sys_eqb. intros H. apply Z.eqb_eq in H. destruct a, b; simpl in H; congruence || lia. Qed.

(* compare never panics on two versions that satisfy the invariant *)
Theorem compare_total a b : ver_ok a = true -> ver_ok b = true -> exists z, compare a b = Ok z.
Proof.
  unfold ver_ok. intros Ha Hb. apply andb_prop in Ha. apply andb_prop in Hb. destruct Ha as [Ha _], Hb as [Hb _].
  unfold compare. destruct (sys_eqb (v_sys a) (v_sys b)) eqn:E; cbn [negb]; [|eexists; reflexivity].
  apply sys_eqb_true' in E. rewrite <- E in Hb.
  destruct (v_ext a) as [|xa|pa|ga], (v_ext b) as [|xb|pb|gb]; simpl in *; eauto.
  - apply andb_prop in Ha. apply andb_prop in Hb. destruct Ha as [_ Ha], Hb as [_ Hb].
    apply maven_compare_no_panic; apply okcat_b_spec; auto.
  - apply andb_prop in Ha. destruct Ha as [Ha _]. apply sys_eqb_true' in Ha. rewrite Ha in Hb. discriminate.
  - apply andb_prop in Ha. destruct Ha as [Ha _]. apply sys_eqb_true' in Ha. rewrite Ha in Hb. discriminate.
  - apply andb_prop in Hb. destruct Hb as [Hb _]. apply sys_eqb_true' in Hb. rewrite Hb in Ha. discriminate.
  - apply sys_eqb_true' in Ha. rewrite Ha in Hb. discriminate.
  - apply andb_prop in Hb. destruct Hb as [Hb _]. apply sys_eqb_true' in Hb. rewrite Hb in Ha. discriminate.
  - apply sys_eqb_true' in Ha. rewrite Ha in Hb. discriminate.
Qed.

Lemma compare_good a b : ver_ok a = true -> ver_ok b = true -> good (fun _ => True) (compare a b).
Proof. intros Ha Hb. destruct (compare_total a b Ha Hb) as (z & ->). exact I. Qed.

Definition opt_ok (o : option version) : Prop := match o with Some v => ver_ok v = true | None => True end.

Lemma compare_opt_good a b : opt_ok a -> opt_ok b -> good (fun _ => True) (compare_opt a b).
Proof. destruct a, b; simpl; auto. apply compare_good. Qed.

(* ---------------------------------------------------------------- edits keep the invariant *)
Lemma ver_ok_fields v w : v_sys w = v_sys v -> v_ext w = v_ext v -> v_pre w = v_pre v -> ver_ok v = true -> ver_ok w = true.
Proof. unfold ver_ok. intros -> -> ->. auto. Qed.

Lemma ver_ok_vset_num v l : ver_ok v = true -> ver_ok (vset_num v l) = true.
Proof. apply ver_ok_fields; reflexivity. Qed.
Lemma ver_ok_vset_build v l : ver_ok v = true -> ver_ok (vset_build v l) = true.
Proof. apply ver_ok_fields; reflexivity. Qed.
Lemma ver_ok_set_num v i x : ver_ok v = true -> ver_ok (set_num v i x) = true.
Proof. apply ver_ok_vset_num. Qed.
Lemma ver_ok_set_tail v m f : ver_ok v = true -> ver_ok (set_tail v m f) = true.
Proof. intros H. unfold set_tail. destruct (fill_from _ _ _); [apply ver_ok_vset_num|]; auto. Qed.
Lemma ver_ok_fill v x : ver_ok v = true -> ver_ok (fill_v v x) = true.
Proof. apply ver_ok_vset_num. Qed.

Lemma ver_ok_clear_pre v : ver_ok v = true -> ver_ok (clear_pre v) = true.
Proof.
  unfold ver_ok, clear_pre. intros H. apply andb_prop in H. destruct H as [H _].
  cbn [v_sys v_ext v_pre vset_ext vset_pre forallb]. rewrite andb_true_r.
  destruct (v_ext v) as [| |[p|]|]; simpl in *; auto.
Qed.

Lemma ver_ok_vset_pre v p : ver_ok v = true -> forallb nonempty_b p = true -> ver_ok (vset_pre v p) = true.
Proof.
  unfold ver_ok. intros H Hp. apply andb_prop in H. destruct H as [H _]. cbn [vset_pre v_sys v_ext v_pre]. rewrite H, Hp. reflexivity.
Qed.

Lemma ver_ok_min sys v : sys = v_sys v -> ver_ok (min_version sys v) = true.
Proof. intros ->. destruct (v_sys v) eqn:E; unfold min_version; try reflexivity. Qed.

(* ---------------------------------------------------------------- Version.inc *)
Lemma idx_lt {A} (l : list A) : forall n, (n < length l)%nat -> exists x, idx l n = Ok x.
Proof.
  induction l as [|y t IH]; intros n L; simpl in *; [lia|].
  destruct n as [|n]; [eauto|]. apply IH. lia.
Qed.

Lemma inc_n_good v n : ver_ok v = true -> (n < length (v_num v))%nat -> good (fun w => ver_ok w = true) (inc_n v n).
Proof.
  intros H L. unfold inc_n.
  destruct (idx_lt (v_num v) n L) as (x & ->). simpl. apply ver_ok_set_num; auto.
Qed.

Lemma version_inc_good v : ver_ok v = true -> good (fun w => ver_ok w = true) (version_inc v).
Proof.
  intros H. unfold version_inc. destruct (has_pre v); [exact I|].
  destruct (v_num v) as [|a [|b [|c t]]] eqn:N; cbn [length].
  - exact I.
  - destruct (is_wild_or_inf (major v)).
    + simpl. repeat apply ver_ok_set_num. auto.
    + apply inc_n_good; auto. rewrite N. simpl. lia.
  - destruct (is_wild_or_inf (minor v)).
    + apply (good_bind (fun w => ver_ok w = true)); [apply inc_n_good; auto; rewrite N; simpl; lia|].
      intros w Hw. simpl. repeat apply ver_ok_set_num. auto.
    + apply inc_n_good; auto. rewrite N. simpl. lia.
  - destruct (find_wild_or_inf (a :: b :: c :: t) 0) as [[|k]|] eqn:F.
    + simpl. auto.
    + assert (Lk : (k < length (v_num v))%nat).
      { rewrite N. clear - F.
        assert (G : forall l i j, find_wild_or_inf l i = Some j -> (i <= j < i + length l)%nat).
        { induction l as [|y l IH]; intros i j; simpl; [discriminate|].
          destruct (is_wild_or_inf y); [intros E; inversion E; lia|]. intros E. apply IH in E. lia. }
        apply G in F. lia. }
      apply (good_bind (fun w => ver_ok w = true)); [apply inc_n_good; auto|].
      intros w Hw. simpl. apply ver_ok_vset_num. auto.
    + apply inc_n_good; auto. rewrite N. simpl. lia.
Qed.

(* ---------------------------------------------------------------- the tokenizer is total *)
(* byte_type has an entry for every byte below 0x7F and operators one for every system: both
   are facts about the REGENERATED tables *)
Lemma byte_type_covers : forallb (fun n => match idx byte_type n with Ok _ => true | _ => false end) (seq 0 127) = true.
Proof. vm_compute. reflexivity. Qed.

Lemma idx_byte_type c : (c < 127)%N -> exists t, idx byte_type (N.to_nat c) = Ok t.
Proof.
  intros H. pose proof byte_type_covers as C. rewrite forallb_forall in C.
  specialize (C (N.to_nat c)). assert (I : In (N.to_nat c) (seq 0 127)) by (apply in_seq; lia).
  specialize (C I). destruct (idx byte_type (N.to_nat c)); try discriminate. eauto.
Qed.

Lemma operators_cover sys : exists o, idx operators (Z.to_nat (sys_index sys)) = Ok o.
Proof. destruct sys; vm_compute; eauto. Qed.

Lemma type_of_total sys r : exists t, type_of sys r = Ok t.
Proof.
  destruct r as [c|]; simpl; eauto.
  destruct (N.eqb c 95 && sys_eqb sys SMaven); eauto.
  destruct (N.eqb c 43 && sys_eqb sys SRubyGems); eauto.
  destruct (N.leb_spec 127 c); eauto. apply idx_byte_type. lia.
Qed.

Lemma skip_spaces_total s : exists i rest, skip_spaces s = Ok (i, rest) /\ (length rest + i = length s)%nat.
Proof.
  induction s as [|c t IH]; cbn [skip_spaces]; [exists 0%nat, []; auto|].
  destruct (N.ltb_spec c 127) as [L|L]; [|exists 0%nat, (c :: t); simpl; split; auto; lia].
  destruct (idx_byte_type c L) as (ty & ->). cbn [bind].
  destruct (N.eqb ty go_tWS); [|exists 0%nat, (c :: t); simpl; split; auto; lia].
  destruct IH as (i & rest & -> & Hl). cbn [bind fst snd]. exists (Datatypes.S i), rest. split; auto. simpl. lia.
Qed.

Lemma tok_scan_total sys typ opset start rest : forall k, exists k', tok_scan sys typ opset start k rest = Ok k' /\ (k <= k' <= k + length rest)%nat.
Proof.
  induction rest as [|c t IH]; intros k; cbn [tok_scan]; [exists k; split; auto; simpl; lia|].
  destruct (N.leb_spec 128 c); [exists k; split; auto; simpl; lia|].
  destruct (N.eqb c 33 && sys_eqb sys SPyPI && N.eqb typ go_tVS).
  { destruct (IH (Datatypes.S k)) as (k' & -> & Hk). exists k'. split; auto. simpl. lia. }
  destruct (type_of_total sys (RAscii c)) as (ty & ->). cbn [bind].
  destruct (negb (N.eqb ty typ)); [exists k; split; auto; simpl; lia|].
  destruct ((N.eqb typ go_tOP || N.eqb typ go_tBR) && (ops_lookup opset (firstn (Datatypes.S k) start) =? go_tokInvalid));
    [exists k; split; auto; simpl; lia|].
  destruct (IH (Datatypes.S k)) as (k' & -> & Hk). exists k'. split; auto. simpl. lia.
Qed.

(* System.token always returns; unless it reports EOF it consumes at least one byte, and never
   more than there are *)
Theorem token_total sys str : exists typ tok n, token sys str = Ok (typ, tok, n) /\ (n <= length str)%nat /\
  (typ <> go_tokEOF -> (1 <= n)%nat).
Proof.
  unfold token. destruct (skip_spaces_total str) as (i & rest & -> & Hl). cbn [bind].
  destruct rest as [|c t] eqn:R.
  { exists go_tokEOF, [], i. split; [reflexivity|]. split; [simpl in Hl; lia | congruence]. }
  assert (W : exists r wid, decode_rune (c :: t) = (r, wid) /\ (1 <= wid <= length (c :: t))%nat).
  { unfold decode_rune. destruct (N.ltb c 128); [eexists; eexists; split; [reflexivity|simpl; lia]|].
    eexists; eexists; split; [reflexivity|]. unfold decode_width_hi.
    destruct (utf8_first c) as [[[sz lo] hi]|]; [|simpl; lia].
    destruct (Nat.ltb_spec (length t) (sz - 1)); [simpl; lia|].
    destruct t as [|s1 t1]; [simpl; lia|]. destruct (negb (in_range lo hi s1)); [simpl; lia|].
    destruct (sz <=? 2)%nat; [simpl; lia|]. destruct t1 as [|s2 t2]; [simpl; lia|].
    destruct (negb (is_cont s2)); [simpl; lia|]. destruct (sz <=? 3)%nat; [simpl; lia|].
    destruct t2 as [|s3 t3]; [simpl; lia|]. destruct (negb (is_cont s3)); simpl; lia. }
  destruct W as (r & wid & -> & Hw).
  destruct (type_of_total sys r) as (typ & ->). cbn [bind].
  destruct (N.eqb typ go_tXX).
  { eexists; eexists; eexists. split; [reflexivity|]. simpl in *. split; lia. }
  destruct (operators_cover sys) as (opset & ->). cbn [bind].
  destruct (tok_scan_total sys typ opset (c :: t) (skipn wid (c :: t)) wid) as (k & -> & Hk). cbn [bind].
  assert (Hs : (wid + length (skipn wid (c :: t)) = length (c :: t))%nat) by (rewrite skipn_length; lia).
  repeat match goal with |- context [if ?b then _ else _] => destruct b end;
    (eexists; eexists; eexists; split; [reflexivity|]; simpl in *; split; lia).
Qed.
