(* C03, Cargo layer, further operators on a full release version: <=M.m.p and >M.m.p (p below
   2^63-2) against the semver crate's matches(), on release candidates. *)
From Coq Require Import Lia.
From DepsDev Require Import Lib.Base Lib.Order Semver.Version Semver.Maven Semver.Gem Semver.Pep440 Semver.Compare
     Semver.Generic_proofs Semver.Compare_proofs Semver.Span Semver.Interval Semver.Set Semver.Constraint
     Semver.Span_proofs Semver.Inc_proofs Semver.Inter_proofs Semver.C03_proofs Semver.C03_cargo_proofs
     Gen.SemverTables Spec.NodeRange Spec.CargoReq.
Local Open Scope Z_scope.

Section MoreOps.
Variable pv : system -> bool -> bytes -> res parse_out.
Variables (str : bytes) (M m p : Z).
Hypothesis HM : fin M.
Hypothesis Hm : fin m.
Hypothesis Hp : fin p.

Notation lo := (mk3c str M m p).

Ltac prep :=
  unfold op_version_to_span; rewrite (W_lo_c str M m p HM Hm Hp); cbn [andb];
  change (v_sys lo) with SCargo; change (v_num lo) with [M; m; p];
  unfold go_tokEmpty, go_tokEqual, go_tokGreater, go_tokGreaterEqual, go_tokLess, go_tokLessEqual,
         go_tokCaret, go_tokTilde, go_tokBacon;
  cbn [sys_eqb sys_index Z.eqb Pos.eqb length Nat.ltb Nat.leb has_pre v_pre mk3c andb negb orb].

Ltac spec_side u x y z C :=
  unfold matches_req, matches_impl, fullc; cbn [forallb c_op];
  rewrite (sv_of_candc u x y z C);
  unfold matches_exact, matches_greater, matches_less, matches_tilde, matches_caret, pre_eq, pre_gt, pre_lt, pre_ge, is_nil;
  cbn [c_major c_minor c_patch c_pre sv_major sv_minor sv_patch sv_pre mk_sv pre_compare Z.eqb Z.ltb Z.leb Z.compare];
  rewrite ?andb_true_r.

Ltac arith u x y z C :=
  let Hx := fresh "Hx" in let Hy := fresh "Hy" in let Hz := fresh "Hz" in
  destruct C as (_ & _ & _ & _ & Hx & Hy & Hz); unfold fin, infinity in *; unfold lowb;
  repeat rewrite ?andb_false_r, ?andb_true_r, ?orb_false_r; cbn [orb andb negb];
  repeat match goal with
         | |- context [lex3 ?a ?b ?c ?d ?e ?f] =>
             let L := fresh "L" in let E := fresh "E" in
             pose proof (lex3_lt a b c d e f) as L; pose proof (lex3_eq a b c d e f) as E;
             let v := fresh "l" in set (v := lex3 a b c d e f) in *; clearbody v
         end;
  repeat match goal with
         | |- context [?a =? ?b] => destruct (Z.eqb_spec a b)
         | |- context [?a <? ?b] => destruct (Z.ltb_spec a b)
         | |- context [?a <=? ?b] => destruct (Z.leb_spec a b)
         end; cbn [orb andb negb]; try reflexivity; exfalso; lia.

(* <=M.m.p *)
Theorem cargo_le_sound : cargo_sound M m p (op_version_to_span pv go_tokLessEqual lo) CLessEq.
Proof.
  unfold cargo_sound. prep.
  unfold op_tail. cbn [min_version v_sys mk3c sys_eqb sys_index Z.eqb Pos.eqb v_user_num_count].
  unfold needs_rebuild. cbn [sys_eqb sys_index Z.eqb Pos.eqb orb v_sys set_tail].
  change (set_tail
       {| v_sys := SCargo; v_user_num_count := 3; v_is_prerelease := false; v_str := s_min_str;
          v_num := [0; 0; 0]; v_pre := [[48%N]]; v_build := []; v_ext := NoExt |} infinity infinity)
    with (min_cargo 3).
  rewrite (set_tail_lo_c str M m p HM Hm Hp).
  unfold fin in *.
  rewrite new_span_min_c by lia.
  eexists. split; [reflexivity|]. intros u x y z C. split; [|apply in_span_release; apply C].
  rewrite (in_vec_min_c _ _ _ _ _ _ u x y z C). spec_side u x y z C. arith u x y z C.
Qed.

(* >M.m.p *)
Theorem cargo_gt_sound : p < infinity - 1 -> cargo_sound M m p (op_version_to_span pv go_tokGreater lo) CGreater.
Proof.
  intros Hp1. unfold cargo_sound. prep. unfold all_v. cbn [v_num mk3c forallb]. unfold wildcard, fin in *.
  assert (A1 : (M =? -1) = false) by (apply Z.eqb_neq; lia). rewrite A1. cbn [andb].
  unfold is_rubygems_or_pypi. cbn [sys_eqb sys_index Z.eqb Pos.eqb orb].
  assert (INC : version_inc lo = Ok (mk3c str M m (p + 1))).
  { unfold version_inc, has_pre. cbn [v_pre mk3c v_num length find_wild_or_inf].
    unfold is_wild_or_inf, wildcard.
    rewrite A1. rewrite !(proj2 (Z.eqb_neq _ _)) by lia. cbn [orb].
    unfold inc_n. cbn [v_num mk3c length Nat.sub idx nth_error bind].
    rewrite value_inc_small by lia. reflexivity. }
  rewrite INC. cbn [bind].
  change (vset_build (mk3c str M m (p + 1)) []) with (mk3c str M m (p + 1)).
  unfold op_ge. change (v_sys (mk3c str M m (p + 1))) with SCargo.
  cbn [sys_eqb sys_index Z.eqb Pos.eqb andb bind].
  unfold op_tail.
  assert (T : set_tail (mk3c str M m (p + 1)) infinity infinity = mk3c str M m (p + 1)).
  { unfold set_tail. cbn [v_num mk3c at_least3 length Nat.max pad_to Nat.sub repeat app fill_from].
    rewrite !(proj2 (Z.eqb_neq _ infinity)) by lia. reflexivity. }
  rewrite T. change (v_sys (mk3c str M m (p + 1))) with SCargo.
  unfold needs_rebuild. cbn [sys_eqb sys_index Z.eqb Pos.eqb orb].
  change (set_tail (vset_build (clear_pre (vset_num lo (map (fun _ : Z => infinity) (v_num lo)))) []) infinity infinity)
    with (mk3c str infinity infinity infinity).
  rewrite new_span_3c by (unfold infinity in *; try lia; apply lex3_lt; lia).
  eexists. split; [reflexivity|]. intros u x y z C. split; [|apply in_span_release; apply C].
  rewrite (in_vec_3c _ _ _ _ _ _ _ _ _ _ u x y z C). spec_side u x y z C. arith u x y z C.
Qed.
End MoreOps.
