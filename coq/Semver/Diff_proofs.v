(* Proofs about the model of Version.Difference (Semver/Diff.v). *)
From Coq Require Import List ZArith Lia Bool.
From DepsDev Require Import Lib.Base Semver.Version Semver.Maven Semver.Gem Semver.Pep440 Semver.Compare
  Semver.MavenParse Semver.MavenParse_proofs Semver.Diff.
Import ListNotations.
Local Open Scope Z_scope.

Definition returns {A} (r : res A) : Prop :=
  match r with Panic _ => False | OutOfFuel => False | _ => True end.

Definition is_mvn_ext (v : version) : Prop := exists l, v_ext v = MavenExt l.

(* Difference returns whenever Compare does and, for Maven, both versions carry Maven's extension
   (the two type assertions of mavenDifference) *)
Theorem difference_total : forall v u,
  (exists c, compare v u = Ok c) ->
  (is_maven (v_sys v) = true -> is_mvn_ext v /\ is_mvn_ext u) ->
  returns (difference v u).
Proof.
  intros v u [c Hc] Hm. unfold difference. rewrite Hc. cbn [bind].
  destruct ((c =? 0) && bytes_eqb (v_build v) (v_build u)); [exact I|].
  destruct (is_maven (v_sys v)) eqn:Em.
  - destruct (Hm eq_refl) as [[lv Hv] [lu Hu]]. unfold maven_difference. rewrite Hv, Hu. cbn [bind]. exact I.
  - repeat match goal with |- returns (if ?b then _ else _) => destruct b; try exact I end.
Qed.

(* two parsed Maven versions: no hypothesis left *)
Theorem difference_total_maven : forall sa sb a b,
  mvn_parse sa = Some (Ok a) -> mvn_parse sb = Some (Ok b) -> returns (difference a b).
Proof.
  intros sa sb a b Ha Hb. apply difference_total.
  - exact (maven_compare_total sa sb a b Ha Hb).
  - intros _. unfold mvn_parse, mvn_parse_with in Ha, Hb.
    destruct (mvn_fragment sa); [|discriminate]. destruct (mvn_fragment sb); [|discriminate].
    destruct (mvn_init_with mvn_fix_zero_spelling sa) as [ra|?|?|]; cbn [bind] in Ha; try discriminate.
    destruct (mvn_init_with mvn_fix_zero_spelling sb) as [rb|?|?|]; cbn [bind] in Hb; try discriminate.
    inversion Ha; inversion Hb; subst. split; eexists; reflexivity.
Qed.

(* versions without an extension (the SemVer family): Compare is generic_compare, so Difference returns *)
Theorem difference_total_family : forall v u,
  v_sys v = v_sys u -> v_ext v = NoExt -> v_sys v <> SMaven -> returns (difference v u).
Proof.
  intros v u Hs Hv Hn. apply difference_total.
  - unfold compare. rewrite Hs. unfold sys_eqb. rewrite Z.eqb_refl. cbn [negb]. rewrite Hv. eexists; reflexivity.
  - intros Hm. exfalso. apply Hn. unfold is_maven, sys_eqb in Hm. apply Z.eqb_eq in Hm.
    destruct (v_sys v); cbn in Hm; try discriminate; reflexivity.
Qed.

(* the first component is Compare's answer *)
Theorem difference_fst : forall v u c d, difference v u = Ok (c, d) -> compare v u = Ok c.
Proof.
  intros v u c d H. unfold difference in H.
  destruct (compare v u) as [c0|?|?|]; cbn [bind] in H; try discriminate.
  destruct ((c0 =? 0) && bytes_eqb (v_build v) (v_build u)); [inversion H; reflexivity|].
  destruct (is_maven (v_sys v)).
  - destruct (maven_difference v u); cbn [bind] in H; try discriminate. inversion H; reflexivity.
  - repeat match type of H with (if ?b then _ else _) = _ => destruct b end; inversion H; reflexivity.
Qed.

Lemma bytes_eqb_true : forall a b, bytes_eqb a b = true <-> a = b.
Proof.
  induction a as [|x a IH]; destruct b as [|y b]; simpl; split; intros H; try reflexivity; try discriminate.
  - apply andb_true_iff in H. destruct H as [H1 H2]. apply N.eqb_eq in H1. apply IH in H2. subst. reflexivity.
  - inversion H; subst. apply andb_true_iff. split; [apply N.eqb_refl | apply IH; reflexivity].
Qed.

Lemma maven_difference_not_same : forall v u d, maven_difference v u = Ok d -> d <> d_same.
Proof.
  intros v u d H. unfold maven_difference in H.
  destruct (v_ext v); try discriminate. destruct (v_ext u); try discriminate.
  inversion H. repeat match goal with |- context [if ?b then _ else _] => destruct b end; discriminate.
Qed.

(* Same is reported exactly when the versions compare equal and carry the same build tag *)
Theorem difference_same_iff : forall v u c d,
  difference v u = Ok (c, d) -> (d = d_same <-> c = 0 /\ v_build v = v_build u).
Proof.
  intros v u c d H. pose proof (difference_fst v u c d H) as Hc.
  unfold difference in H. rewrite Hc in H. cbn [bind] in H.
  destruct ((c =? 0) && bytes_eqb (v_build v) (v_build u)) eqn:E.
  - inversion H; subst. apply andb_true_iff in E. destruct E as [E1 E2].
    apply Z.eqb_eq in E1. apply bytes_eqb_true in E2. tauto.
  - assert (Hn : ~ (c = 0 /\ v_build v = v_build u)).
    { intros [H1 H2]. rewrite H1, H2 in E. rewrite Z.eqb_refl in E.
      assert (X : bytes_eqb (v_build u) (v_build u) = true) by (apply bytes_eqb_true; reflexivity).
      rewrite X in E. discriminate. }
    assert (Hd : d <> d_same).
    { destruct (is_maven (v_sys v)).
      - destruct (maven_difference v u) as [d0|?|?|] eqn:Em; cbn [bind] in H; try discriminate.
        inversion H; subst. eapply maven_difference_not_same; eauto.
      - repeat match type of H with (if ?b then _ else _) = _ => destruct b end; inversion H; discriminate. }
    tauto.
Qed.

(* outside Maven: the first differing number among major, minor, patch names the difference *)
Theorem difference_family_numbers : forall v u c d,
  is_maven (v_sys v) = false -> difference v u = Ok (c, d) -> d <> d_same ->
  (get_num (v_num v) 0 <> get_num (v_num u) 0 -> d = d_major) /\
  (get_num (v_num v) 0 = get_num (v_num u) 0 -> get_num (v_num v) 1 <> get_num (v_num u) 1 -> d = d_minor) /\
  (get_num (v_num v) 0 = get_num (v_num u) 0 -> get_num (v_num v) 1 = get_num (v_num u) 1 ->
     get_num (v_num v) 2 <> get_num (v_num u) 2 -> d = d_patch) /\
  (d = d_prerelease \/ d = d_build ->
     get_num (v_num v) 0 = get_num (v_num u) 0 /\ get_num (v_num v) 1 = get_num (v_num u) 1 /\
     get_num (v_num v) 2 = get_num (v_num u) 2 /\ length (v_num v) = 3%nat /\ length (v_num u) = 3%nat).
Proof.
  intros v u c d Hm H Hd. pose proof (difference_fst v u c d H) as Hc.
  unfold difference in H. rewrite Hc, Hm in H. cbn [bind] in H.
  destruct ((c =? 0) && bytes_eqb (v_build v) (v_build u)); [inversion H; subst; contradiction|].
  destruct (Z.eqb_spec (get_num (v_num v) 0) (get_num (v_num u) 0)) as [E0|E0]; cbn [negb] in H;
    [|inversion H; subst; repeat split; intros; try reflexivity; try contradiction; try congruence;
      match goal with X : _ \/ _ |- _ => destruct X; discriminate end].
  destruct (Z.eqb_spec (get_num (v_num v) 1) (get_num (v_num u) 1)) as [E1|E1]; cbn [negb] in H;
    [|inversion H; subst; repeat split; intros; try reflexivity; try contradiction; try congruence;
      match goal with X : _ \/ _ |- _ => destruct X; discriminate end].
  destruct (Z.eqb_spec (get_num (v_num v) 2) (get_num (v_num u) 2)) as [E2|E2]; cbn [negb] in H;
    [|inversion H; subst; repeat split; intros; try reflexivity; try contradiction; try congruence;
      match goal with X : _ \/ _ |- _ => destruct X; discriminate end].
  destruct (Nat.eqb_spec (length (v_num v)) 3) as [L1|L1]; cbn [negb orb] in H;
    [|inversion H; subst; repeat split; intros; try contradiction; try congruence;
      match goal with X : _ \/ _ |- _ => destruct X; discriminate end].
  destruct (Nat.eqb_spec (length (v_num u)) 3) as [L2|L2]; cbn [negb orb] in H;
    [|inversion H; subst; repeat split; intros; try contradiction; try congruence;
      match goal with X : _ \/ _ |- _ => destruct X; discriminate end].
  repeat split; intros; try contradiction; try congruence; auto.
Qed.
