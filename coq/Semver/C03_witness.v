(* C03: the recorded npm counterexamples, evaluated in the model (with the parser answers
   recorded from Go) and in the reference specification. *)
From Coq Require Import String.
From DepsDev Require Import Lib.Base Semver.Version Semver.Compare Semver.Span Semver.Interval Semver.Set Semver.Constraint
     Semver.Witness Semver.C03_proofs Spec.NodeRange.
Local Open Scope Z_scope.

Definition pa (M m p : option Z) : partial := {| pa_major := M; pa_minor := m; pa_patch := p; pa_pre := [] |}.
Definition pa_pre_ (M m p : option Z) (pre : list ident) : partial := {| pa_major := M; pa_minor := m; pa_patch := p; pa_pre := pre |}.

(* Some true: the model and node-semver agree on v; Some false: they differ; None: rejected *)
Definition c03_npm_check (text : string) (ast : nrange) (v : version) : option bool :=
  match parse_constraint pv_w SNPM (b text) with
  | Ok c => match match_version c v with
            | Ok m => Some (Bool.eqb m (satisfies ast (sv_of v)))
            | _ => None
            end
  | _ => None
  end.

(* F-C03-1a: <0.2 ^0.2 matches 0.2.0 *)
Definition ast_point : nrange := [NSimples [(OpLt, pa (Some 0) (Some 2) None); (OpCaret, pa (Some 0) (Some 2) None)]].
Lemma npm_point_witness : c03_npm_check "<0.2 ^0.2" ast_point (mkv SNPM "0.2.0" [0;2;0] []) = Some false.
Proof. vm_compute. reflexivity. Qed.

(* ... and >=1.2.0 <2.0.0 >=2.0.0 <3.0.0 = {2.0.0} *)
Definition ast_point2 : nrange :=
  [NSimples [(OpGe, pa (Some 1) (Some 2) (Some 0)); (OpLt, pa (Some 2) (Some 0) (Some 0));
             (OpGe, pa (Some 2) (Some 0) (Some 0)); (OpLt, pa (Some 3) (Some 0) (Some 0))]].
Lemma npm_point_witness2 : c03_npm_check ">=1.2.0 <2.0.0 >=2.0.0 <3.0.0" ast_point2 (mkv SNPM "2.0.0" [2;0;0] []) = Some false.
Proof. vm_compute. reflexivity. Qed.

(* ... and <0.x 0.0 matches 0.0.0 *)
Definition ast_point3 : nrange := [NSimples [(OpLt, pa (Some 0) None None); (OpNone, pa (Some 0) (Some 0) None)]].
Lemma npm_point_witness3 : c03_npm_check "<0.x 0.0" ast_point3 (mkv SNPM "0.0.0" [0;0;0] []) = Some false.
Proof. vm_compute. reflexivity. Qed.

(* F-C03-1b: >=0.1.1 <1 || ~>2 matches 1.3.3 *)
Definition ast_adjacent : nrange :=
  [NSimples [(OpGe, pa (Some 0) (Some 1) (Some 1)); (OpLt, pa (Some 1) None None)]; NSimples [(OpTilde, pa (Some 2) None None)]].
Lemma npm_adjacent_witness : c03_npm_check ">=0.1.1 <1 || ~>2" ast_adjacent (mkv SNPM "1.3.3" [1;3;3] []) = Some false.
Proof. vm_compute. reflexivity. Qed.

(* F-C03-1c: 1.0 - 10.2.0-1 || 1 ~1.2 || ~1 rejects 3.1.10 *)
Definition ast_drop : nrange :=
  [NHyphen (pa (Some 1) (Some 0) None) (pa_pre_ (Some 10) (Some 2) (Some 0) [INum 1]);
   NSimples [(OpNone, pa (Some 1) None None); (OpTilde, pa (Some 1) (Some 2) None)];
   NSimples [(OpTilde, pa (Some 1) None None)]].
Lemma npm_drop_witness : c03_npm_check "1.0 - 10.2.0-1 || 1 ~1.2 || ~1" ast_drop (mkv SNPM "3.1.10" [3;1;10] []) = Some false.
Proof. vm_compute. reflexivity. Qed.

(* F-C03-2: 2 - 1 || 3 is rejected although node accepts 3.0.0 *)
Definition ast_reversed : nrange :=
  [NHyphen (pa (Some 2) None None) (pa (Some 1) None None); NSimples [(OpNone, pa (Some 3) None None)]].
Lemma npm_rejected_witness :
  (exists e, parse_constraint pv_w SNPM (b "2 - 1 || 3") = Err e) /\
  satisfies ast_reversed (sv_of (mkv SNPM "3.0.0" [3;0;0] [])) = true.
Proof. split; [eexists; vm_compute; reflexivity | vm_compute; reflexivity]. Qed.
