(* The Maven domain of C01/C02 (DESIGN 6.4) as boolean predicates: on the element list the
   parser produces (hypothesis of the theorems) and, equivalently, on strings (what the
   generator draws from).  Definitions only.

   d_mvn_wide is the domain on which the preorder laws are PROVED (Maven_proofs.v): a
   trimmed dotted numeric prefix followed by any number of elements attached by '-'
   (qualifiers or numbers) or numbers attached by '.', none of these spelled "0", the last
   one not equivalent to the empty qualifier.  d_mvn is the DESIGN 6.4 shape (at most one
   qualifier token, one number, one -SNAPSHOT); it is included in d_mvn_wide. *)
From DepsDev Require Import Lib.Base Semver.Version Semver.Maven Semver.MavenParse Gen.SemverTables.
Local Open Scope Z_scope.

Definition is_num_elem (e : mvn_elem) : bool := maven_category (me_str e) =? cat_numeric.
Definition is_qual_elem (e : mvn_elem) : bool := maven_category (me_str e) =? cat_qualifier.
Definition s_zero : bytes := [48%N].
Definition s_snapshot : bytes := [115; 110; 97; 112; 115; 104; 111; 116]%N.

(* elements that may follow the numeric prefix: a qualifier or a number attached by '-', or a
   number attached by '.' that is not spelled "0" *)
Definition tail_elem_ok (e : mvn_elem) : bool :=
  (N.eqb (me_sep e) 45 && is_qual_elem e && (me_int e =? 0))
  || (N.eqb (me_sep e) 45 && is_num_elem e)
  || (N.eqb (me_sep e) 46 && is_num_elem e && negb (bytes_eqb (me_str e) s_zero)).

(* all elements are tail elements and the last one is not equivalent to the padding *)
Fixpoint wide_tail (l : list mvn_elem) : bool :=
  match l with
  | [] => true
  | e :: t =>
      tail_elem_ok e
      && match t with [] => negb (is_empty_elem (me_str e)) | _ => true end
      && wide_tail t
  end.

(* elements of the dotted numeric prefix after the first one *)
Definition pre_elem (e : mvn_elem) : bool := N.eqb (me_sep e) 46 && is_num_elem e.

(* split into the rest of the numeric prefix and the tail *)
Fixpoint split_prefix (l : list mvn_elem) : list mvn_elem * list mvn_elem :=
  match l with
  | [] => ([], [])
  | e :: t =>
      if pre_elem e
      then let '(p, r) := split_prefix t in (e :: p, r)
      else ([], l)
  end.

(* trimmed: the last element of the prefix is not spelled "0" *)
Fixpoint last_not_zero (p : list mvn_elem) : bool :=
  match p with
  | [] => true
  | [e] => negb (bytes_eqb (me_str e) s_zero)
  | _ :: t => last_not_zero t
  end.

Definition head_dash (t : list mvn_elem) : bool :=
  match t with [] => true | e :: _ => N.eqb (me_sep e) 45 end.

Definition d_mvn_wide (l : list mvn_elem) : bool :=
  match l with
  | [] => false
  | e0 :: r =>
      N.eqb (me_sep e0) 0 && is_num_elem e0
      && last_not_zero (fst (split_prefix r)) && head_dash (snd (split_prefix r)) && wide_tail (snd (split_prefix r))
  end.

Definition mvn_prefix (l : list mvn_elem) : list mvn_elem :=
  match l with [] => [] | e0 :: r => e0 :: fst (split_prefix r) end.
Definition mvn_tail (l : list mvn_elem) : list mvn_elem :=
  match l with [] => [] | _ :: r => snd (split_prefix r) end.

Definition is_snap_elem (e : mvn_elem) : bool := N.eqb (me_sep e) 45 && bytes_eqb (me_str e) s_snapshot.

(* DESIGN 6.4: qualifier? number? snapshot? *)
Definition narrow_tail (t : list mvn_elem) : bool :=
  match t with
  | [] => true
  | [a] => true
  | [a; b] => (is_qual_elem a && (is_num_elem b || is_snap_elem b)) || (is_num_elem a && is_snap_elem b)
  | [a; b; c] => is_qual_elem a && is_num_elem b && is_snap_elem c
  | _ => false
  end.

Definition d_mvn (l : list mvn_elem) : bool := d_mvn_wide l && narrow_tail (mvn_tail l).

(* C02 drops a release-equivalent qualifier (ga, final, release) followed by a number: after
   trimming this is a tail that starts with a number, or a kept release qualifier followed
   by a number attached by '.' *)
Definition c02_tail (t : list mvn_elem) : bool :=
  match t with
  | [] => true
  | a :: r =>
      negb (is_num_elem a)
      && match r with
         | b :: _ => negb (is_empty_elem (me_str a) && is_num_elem b)
         | [] => true
         end
  end.
Definition d_mvn_c02 (l : list mvn_elem) : bool := d_mvn l && c02_tail (mvn_tail l).

(* ---------- the same domain on strings ---------- *)
Fixpoint span_b (p : N -> bool) (s : bytes) : bytes * bytes :=
  match s with
  | [] => ([], [])
  | c :: t => if p c then let '(a, b) := span_b p t in (c :: a, b) else ([], s)
  end.

Definition is_qual_char (c : N) : bool := ((97 <=? c) && (c <=? 122))%N || N.eqb c 95.

Definition num_ok (ds : bytes) : bool :=
  match ds with [] => false | _ => match parse_num ds with Some _ => true | None => false end end.

(* ('.' digits+)* ; returns the rest *)
Fixpoint dotted_more (fuel : nat) (s : bytes) : option bytes :=
  match fuel with
  | O => None
  | S f =>
      match s with
      | 46%N :: t =>
          let '(ds, r) := span_b is_digit t in
          if num_ok ds then dotted_more f r else None
      | _ => Some s
      end
  end.

Definition s_dash_snapshot : bytes := 45%N :: s_snapshot.

(* what may follow the qualifier: number? snapshot? end.  rel: the qualifier was release-equivalent
   and numbers are not allowed after it *)
Definition after_qual (no_number : bool) (s : bytes) : bool :=
  let s1 :=
    match s with
    | c :: t =>
        let body := if (N.eqb c 45 || N.eqb c 46) then t else s in
        let '(ds, r) := span_b is_digit body in
        match ds with
        | [] => Some s
        | _ => if no_number then None else if num_ok ds then Some r else None
        end
    | [] => Some s
    end in
  match s1 with
  | None => false
  | Some r => match r with [] => true | _ => bytes_eqb r s_dash_snapshot end
  end.

Definition d_mvn_str_gen (c02 : bool) (s : bytes) : bool :=
  let low := to_lower s in
  let '(d0, r0) := span_b is_digit low in
  if negb (num_ok d0) then false
  else
    match dotted_more (S (length low)) r0 with
    | None => false
    | Some r1 =>
        (* optional qualifier token, attached by '-' or directly *)
        let body := match r1 with 45%N :: t => t | _ => r1 end in
        let '(q, r2) := span_b is_qual_char body in
        match q with
        | [] => match r1 with [] => true | _ => false end
        | _ => after_qual (c02 && is_empty_elem q) r2
        end
    end.

Definition d_mvn_str (s : bytes) : bool := d_mvn_str_gen false s.
Definition d_mvn_c02_str (s : bytes) : bool := d_mvn_str_gen true s.
