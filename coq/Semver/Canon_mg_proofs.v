(* C10 for Maven and RubyGems: witnesses and structure-level facts about the canonical printers. *)
From Coq Require Import Lia.
From DepsDev Require Import Lib.Base Lib.Order Lib.BytesFacts Semver.Version Semver.Maven Semver.Gem Semver.MavenParse
  Semver.GemParse Semver.GemDomain Semver.MavenDomain Semver.MavenPrintable Semver.Compare Semver.Generic_proofs Semver.Maven_proofs Semver.Gem_proofs Gen.MavenVariants.
Local Open Scope Z_scope.

(* ------------------------------------------------------------------ Maven *)
(* the printer as found never writes the separator of the first element *)
Lemma maven_canon_head l : maven_canon_with false (head_sep0 l) = maven_canon_with false l.
Proof. destruct l; reflexivity. Qed.

(* canon, re-parse, compare, canon again -- on strings, by variant of the printer (h: a non-zero
   first separator is printed) and of the zero test of the trimming loop (z) *)
Definition mvn_roundtrip_with (h z : bool) (s : bytes) : option (bytes * option (Z * bytes)) :=
  match mvn_parse_with z s with
  | Some (Ok v) =>
      let c := maven_canon_with h (mvn_elems v) in
      Some (c, match mvn_parse_with z c with
               | Some (Ok v2) =>
                   match maven_compare (mvn_elems v) (mvn_elems v2) with
                   | Ok r => Some (r, maven_canon_with h (mvn_elems v2))
                   | _ => None
                   end
               | _ => None
               end)
  | _ => None
  end.
(* the variant of the tree *)
Definition mvn_roundtrip (s : bytes) := mvn_roundtrip_with go_mvn_canon_head_sep mvn_fix_zero_spelling s.

Definition s_m1 : bytes := [45; 49]%N.       (* -1 *)
Definition s_one : bytes := [49]%N.          (* 1 *)

(* F-C10-2: as found, -1 prints as 1, which re-parses to a version that compares 45 against the
   original; with the first separator printed, -1 prints as -1 and goes round *)
Lemma maven_leadsep_witness z :
  mvn_roundtrip_with false z s_m1 = Some (s_one, Some (45, s_one)) /\
  mvn_roundtrip_with false z s_one = Some (s_one, Some (0, s_one)) /\
  mvn_roundtrip_with true z s_m1 = Some (s_m1, Some (0, s_m1)) /\
  mvn_roundtrip_with true z s_one = Some (s_one, Some (0, s_one)).
Proof. destruct z; vm_compute; repeat split; reflexivity. Qed.

Definition mvn_cmp_str (z : bool) (a b : bytes) : option Z :=
  match mvn_parse_with z a, mvn_parse_with z b with
  | Some (Ok va), Some (Ok vb) => match compare va vb with Ok r => Some r | _ => None end
  | _, _ => None
  end.
Lemma maven_inj_witness z : mvn_cmp_str z s_m1 s_one = Some 45.
Proof. destruct z; vm_compute; reflexivity. Qed.

(* what the tree does with the witness *)
Lemma maven_leadsep_tree :
  mvn_roundtrip s_m1 = if go_mvn_canon_head_sep then Some (s_m1, Some (0, s_m1)) else Some (s_one, Some (45, s_one)).
Proof.
  unfold mvn_roundtrip. destruct (maven_leadsep_witness mvn_fix_zero_spelling) as [A [_ [B _]]].
  destruct go_mvn_canon_head_sep; auto.
Qed.

(* if the canonical string re-parses to the same elements up to the first separator, then
   clause 2 holds exactly when the first separator was 0 *)
Lemma maven_reparse_same l : d_mvn_wide (head_sep0 l) = true -> l = head_sep0 l ->
  maven_compare l (head_sep0 l) = Ok 0.
Proof.
  intros D E. rewrite <- E in *. rewrite (maven_compare_key l l D D).
  rewrite (cc_refl _ _ mkey_core) by auto. reflexivity.
Qed.

(* ------------------------------------------------------------------ RubyGems *)
Definition gem_roundtrip (s : bytes) : option (bytes * option (Z * bytes)) :=
  match gem_parse s with
  | Ok v =>
      let c := canon true v in
      Some (c, match gem_parse c with
               | Ok v2 => match compare v v2 with Ok z => Some (z, canon true v2) | _ => None end
               | _ => None
               end)
  | _ => None
  end.

Definition s_100pre : bytes := [49; 46; 48; 46; 48; 46; 112; 114; 101]%N.          (* 1.0.0.pre *)
Definition s_100dash : bytes := [49; 46; 48; 46; 48; 45]%N.                        (* 1.0.0- *)
Definition s_100a1 : bytes := [49; 46; 48; 46; 48; 46; 97; 46; 49]%N.              (* 1.0.0.a.1 *)
Definition s_100_a1 : bytes := [49; 46; 48; 46; 48; 45; 97; 46; 49]%N.             (* 1.0.0-a.1 *)

(* F-C10-1: 1.0.0.pre prints as 1.0.0-, which does not parse; 1.0.0.a.1 prints as 1.0.0-a.1,
   which parses to a different (greater) version *)
Lemma gem_pre_witness :
  gem_roundtrip s_100pre = Some (s_100dash, None) /\
  gem_roundtrip s_100a1 = Some (s_100_a1, Some (-1, s_100_a1)).
Proof. vm_compute. split; reflexivity. Qed.

(* release-only versions: the printer writes the numbers only *)
Lemma gem_canon_release nums : gem_canon nums [] = print_plain_nums nums 0 (at_least3 nums).
Proof. unfold gem_canon. rewrite app_nil_r. reflexivity. Qed.

Definition s_1_0 : bytes := [49; 46; 48]%N.
Definition s_01_002 : bytes := [48; 49; 46; 48; 48; 50]%N.
Definition s_1_2_0 : bytes := [49; 46; 50; 46; 48]%N.
Definition s_1_0_0 : bytes := [49; 46; 48; 46; 48]%N.
(* non-vacuity: 1.0 and 01.002 are release-only and go round *)
Lemma gem_release_examples :
  gem_roundtrip s_1_0 = Some (s_1_0_0, Some (0, s_1_0_0)) /\
  gem_roundtrip s_01_002 = Some (s_1_2_0, Some (0, s_1_2_0)) /\
  match gem_parse s_1_0 with Ok v => gem_release_only v = true | _ => False end.
Proof. vm_compute. repeat split; reflexivity. Qed.

(* clause 4 from clauses 1-2 and the order laws *)
Lemma gem_same_canon_equal v1 v2 v' : gem_dom v1 -> gem_dom v2 -> gem_dom v' ->
  compare v1 v' = Ok 0 -> compare v2 v' = Ok 0 -> compare v1 v2 = Ok 0.
Proof.
  intros D1 D2 D' E1 E2.
  rewrite (gem_compare_ok v1 v' D1 D') in E1. rewrite (gem_compare_ok v2 v' D2 D') in E2.
  rewrite (gem_compare_ok v1 v2 D1 D2).
  assert (A1 : gem_cmp_v v1 v' = 0) by congruence. assert (A2 : gem_cmp_v v2 v' = 0) by congruence.
  pose proof (core_laws _ _ gem_core) as L.
  pose proof (cl_antisym _ _ L v2 v' D2 D') as S. rewrite A2 in S.
  pose proof (cl_congr _ _ L v1 v' v2 D1 D' D2 A1) as C.
  f_equal. destruct (gem_cmp_v v' v2), (gem_cmp_v v1 v2); simpl in *; try discriminate; reflexivity.
Qed.
