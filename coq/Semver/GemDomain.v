(* Domains of the RubyGems theorems, as boolean predicates on what the parser produces.
   Definitions only. *)
From DepsDev Require Import Lib.Base Semver.Version Semver.Maven Semver.Gem.
Local Open Scope Z_scope.

Definition gem_is_num (e : gem_elem) : bool := version_category (ge_str e) =? cat_numeric.

(* The comparator ends with: if len(bs) > len(as) return -1, else 0.  It is reached with
   lists of different lengths exactly when the extra elements are all numerals of value 0
   (spelled 00, 000: a plain 0 is trimmed by the parser), and then it is not symmetric
   (F-C01-3).  The laws are proved for element lists that do not end in a numeral of value 0. *)
Fixpoint gem_last_ok (l : list gem_elem) : bool :=
  match l with
  | [] => true
  | [e] => negb (gem_is_num e && (ge_int e =? 0))
  | _ :: t => gem_last_ok t
  end.

Definition gem_c01_dom (v : version) : bool :=
  match v_ext v with GemExt l => gem_last_ok l | _ => false end.

(* release-only versions (C10): no prerelease segment *)
Definition gem_release_only (v : version) : bool :=
  negb (v_is_prerelease v) && match v_ext v with GemExt [] => true | _ => false end.
