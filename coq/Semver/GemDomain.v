(* Domains of the RubyGems theorems, as boolean predicates on what the parser produces.
   Definitions only. *)
From DepsDev Require Import Lib.Base Semver.Version Semver.Maven Semver.Gem.
Local Open Scope Z_scope.

(* category as the comparison loop uses it: the empty string counts as a qualifier *)
Definition gcat (e : gem_elem) : Z :=
  let k := version_category (ge_str e) in if k =? cat_eof then cat_qualifier else k.

Definition gem_is_num (e : gem_elem) : bool := version_category (ge_str e) =? cat_numeric.

(* Lists that do not end in a numeral of value 0 (spelled 00, 000: a plain 0 is trimmed by the
   parser).  Before c398aba the comparator ended with a one-sided length test that made such
   lists non-antisymmetric (F-C01-3, fixed); the predicate is kept for the harness statistics. *)
Fixpoint gem_last_ok (l : list gem_elem) : bool :=
  match l with
  | [] => true
  | [e] => negb (gem_is_num e && (ge_int e =? 0))
  | _ :: t => gem_last_ok t
  end.

Definition gem_c01_dom (v : version) : bool :=
  match v_ext v with GemExt l => gem_last_ok l | _ => false end.

(* release-only versions (C10): no prerelease segment *)
Definition gem_release_only (v : version) : bool :=
  negb (v_is_prerelease v) && match v_ext v with GemExt [] => true | _ => false end.

Definition gem_elems (v : version) : list gem_elem := match v_ext v with GemExt l => l | _ => [] end.

(* C02: what a parsed version looks like (hypothesis of the agreement theorem): numbers not
   negative; elements numerals (value not negative) or words, the first one a word *)
Definition c02_wf_b (v : version) : bool :=
  forallb (fun z => 0 <=? z) (v_num v)
  && forallb (fun e => ((gcat e =? cat_numeric) && (0 <=? ge_int e)) || (gcat e =? cat_qualifier)) (gem_elems v)
  && match gem_elems v with [] => true | e :: _ => gcat e =? cat_qualifier end.
