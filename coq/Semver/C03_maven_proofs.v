(* C03, Maven layer: the spans the constraint parser builds for a bare version and for one
   bracketed restriction, against Spec/MavenRange.v (VersionRange / Restriction of maven-artifact
   on dotted-integer versions), and the union over a comma list.
   The version parser is outside the model: the bounds and the candidate are versions as the
   Maven parser delivers them for a dotted-integer text (predicate mdot: element list = the
   numbers with trailing zeros trimmed, no generic numbers, no prerelease part). *)
From Coq Require Import Lia List ZArith Bool.
From DepsDev Require Import Lib.Base Lib.Order Semver.Version Semver.Maven Semver.MavenParse Semver.MavenDomain
     Semver.Gem Semver.Pep440 Semver.Compare Semver.Span Semver.Interval Semver.Set Semver.Constraint
     Semver.Maven_proofs Semver.Inter_proofs Gen.SemverTables Spec.MavenRange.
Import ListNotations.
Local Open Scope Z_scope.

(* ---------------------------------------------------------------- trimmed lists *)
Definition isnil {A} (l : list A) : bool := match l with [] => true | _ => false end.

(* trailing zeros removed *)
Fixpoint strip (l : list Z) : list Z :=
  match l with
  | [] => []
  | x :: t => if (x =? 0) && isnil (strip t) then [] else x :: strip t
  end.

(* what the Maven parser keeps of a dotted-integer version: the first number, then the rest
   without trailing zeros (1.0.0 is the single element 1) *)
Definition mtrim (l : list Z) : list Z := match l with [] => [] | x :: t => x :: strip t end.

Definition nonneg (l : list Z) : Prop := Forall (fun x => 0 <= x) l.

Lemma cmpZ_zcmp a b : cmpZ a b = zcmp a b.
Proof. reflexivity. Qed.

Lemma lex_strip_nil_r b : nonneg b -> list_lex cmpZ (-1) [] (strip b) = - tail_compare b.
Proof.
  induction 1 as [|y b Hy Hb IH]; [reflexivity|]. simpl strip. simpl tail_compare.
  destruct (Z.eqb_spec y 0) as [E|E]; simpl andb.
  - subst y. simpl. destruct (strip b) eqn:S; simpl in *; [exact IH | lia].
  - simpl. unfold zcmp. destruct (Z.compare_spec y 0); try lia. reflexivity.
Qed.

Lemma lex_strip_nil_l a : nonneg a -> list_lex cmpZ (-1) (strip a) [] = tail_compare a.
Proof.
  induction 1 as [|x a Hx Ha IH]; [reflexivity|]. simpl strip. simpl tail_compare.
  destruct (Z.eqb_spec x 0) as [E|E]; simpl andb.
  - subst x. simpl. destruct (strip a) eqn:S; simpl in *; [exact IH | lia].
  - simpl. unfold zcmp. destruct (Z.compare_spec x 0); try lia. reflexivity.
Qed.

Lemma lex_strip_mv a : forall b, nonneg a -> nonneg b -> list_lex cmpZ (-1) (strip a) (strip b) = mv_compare a b.
Proof.
  induction a as [|x a IH]; intros b Ha Hb.
  - simpl strip. rewrite lex_strip_nil_r by auto. destruct b; reflexivity.
  - destruct b as [|y b].
    + rewrite lex_strip_nil_l by auto. reflexivity.
    + inversion Ha as [|? ? Hx Ha']; inversion Hb as [|? ? Hy Hb']; subst.
      specialize (IH b Ha' Hb').
      simpl mv_compare. simpl strip.
      destruct (Z.eqb_spec x 0) as [Ex|Ex], (Z.eqb_spec y 0) as [Ey|Ey]; simpl andb.
      * subst. change (zcmp 0 0) with 0. simpl (0 =? 0). cbv iota.
        destruct (strip a) eqn:Sa, (strip b) eqn:Sb; simpl isnil; cbv iota; simpl list_lex; simpl in IH; try exact IH.
      * subst x. assert (Z : zcmp 0 y = -1) by (unfold zcmp; destruct (Z.compare_spec 0 y); try lia; reflexivity).
        rewrite Z. simpl (-1 =? 0). cbv iota.
        destruct (strip a) eqn:Sa; simpl isnil; cbv iota; simpl list_lex; [reflexivity|].
        rewrite cmpZ_zcmp, Z. reflexivity.
      * subst y. assert (Z : zcmp x 0 = 1) by (unfold zcmp; destruct (Z.compare_spec x 0); try lia; reflexivity).
        rewrite Z. simpl (1 =? 0). cbv iota.
        destruct (strip b) eqn:Sb; simpl isnil; cbv iota; simpl list_lex; [reflexivity|].
        rewrite cmpZ_zcmp, Z. reflexivity.
      * simpl list_lex. rewrite cmpZ_zcmp. destruct (zcmp x y =? 0); [exact IH | reflexivity].
Qed.

Lemma lex_mtrim_mv a b : a <> [] -> b <> [] -> nonneg a -> nonneg b ->
  list_lex cmpZ (-1) (mtrim a) (mtrim b) = mv_compare a b.
Proof.
  destruct a as [|x a]; [congruence|]. destruct b as [|y b]; [congruence|]. intros _ _ Ha Hb.
  inversion Ha; inversion Hb; subst. simpl. rewrite cmpZ_zcmp.
  destruct (zcmp x y =? 0); [apply lex_strip_mv; auto | reflexivity].
Qed.

(* ---------------------------------------------------------------- dotted-integer versions *)
(* v is what the Maven parser delivers for the dotted integers l *)
Record mdot (v : version) (l : list Z) : Prop := {
  md_in : mvn_in d_mvn_wide v;
  md_tail : mvn_tail (mvn_elems v) = [];
  md_ints : map me_int (mvn_prefix (mvn_elems v)) = mtrim l;
  md_ne : l <> [];
  md_nonneg : nonneg l;
  md_num : v_num v = [];
  md_pre : v_pre v = [] }.

Lemma mdot_build v l b : mdot v l -> mdot (vset_build v b) l.
Proof. intros [[S [E D]] T I N P U R]. split; auto. split; auto. Qed.

Lemma compare_mdot a b A B : mdot a A -> mdot b B -> compare a b = Ok (mv_compare A B).
Proof.
  intros Ha Hb. rewrite (maven_compare_ok a b (md_in _ _ Ha) (md_in _ _ Hb)).
  unfold mvn_cmp_v, mvn_key. rewrite (md_tail _ _ Ha), (md_tail _ _ Hb), (md_ints _ _ Ha), (md_ints _ _ Hb).
  unfold mkey_cmp, lex. simpl fst. simpl snd.
  rewrite (lex_mtrim_mv A B (md_ne _ _ Ha) (md_ne _ _ Hb) (md_nonneg _ _ Ha) (md_nonneg _ _ Hb)).
  destruct (mv_compare A B =? 0) eqn:E; [|reflexivity].
  apply Z.eqb_eq in E. rewrite E. reflexivity.
Qed.

(* ---------------------------------------------------------------- newSpan on parsed Maven versions *)
Lemma nowild_mdot v l : mdot v l -> nowild v = true.
Proof. intros H. unfold nowild. rewrite (md_num _ _ H). reflexivity. Qed.

Lemma new_span_cmp mn mo mx xo : nowild mn = true -> nowild mx = true ->
  new_span mn mo mx xo =
  (c <- compare (vset_build mn []) (vset_build mx []);;
   if c =? 0 then
     Ok {| sp_rank := RUnit; sp_min_open := mo; sp_max_open := xo;
           sp_min := Some (vset_build mn []); sp_max := Some (vset_build mn []) |}
   else if c <? 0 then
     Ok {| sp_rank := RVector; sp_min_open := mo; sp_max_open := xo;
           sp_min := Some (vset_build mn []); sp_max := Some (vset_build mx []) |}
   else Err E_max_less_min).
Proof.
  intros Wa Wb. unfold new_span.
  rewrite (major_nowild _ Wa), (set_tail_nowild mn 0 Wa (or_introl eq_refl)),
          (set_tail_nowild mx infinity Wb (or_intror eq_refl)). reflexivity.
Qed.

(* matching a Maven candidate against one span is span.contains; the flag plays no part *)
Lemma match_span_maven u pre s : v_sys u = SMaven -> match_span u pre s = span_contains s u pre.
Proof. intros S. unfold match_span. rewrite S. reflexivity. Qed.

Definition restr_of (A : option (list Z)) (mo : bool) (B : option (list Z)) (xo : bool) : mrestr :=
  {| lo := A; lo_incl := negb mo; hi := B; hi_incl := negb xo |}.

Lemma mv_antisym a : forall b, mv_compare b a = - mv_compare a b.
Proof.
  induction a as [|x a IH]; intros [|y b]; simpl; try lia.
  unfold zcmp. rewrite (Z.compare_antisym x y).
  destruct (Z.compare_spec x y); simpl; auto; lia.
Qed.

(* [a,b], (a,b), [a,b), (a,b] with a below b *)
Theorem range_two mn mx A B mo xo : mdot mn A -> mdot mx B -> mv_compare A B < 0 ->
  exists s, new_span mn mo mx xo = Ok s /\
    forall u U pre, mdot u U -> match_span u pre s = Ok (restr_contains (restr_of (Some A) mo (Some B) xo) U).
Proof.
  intros Ha Hb L.
  rewrite (new_span_cmp mn mo mx xo (nowild_mdot _ _ Ha) (nowild_mdot _ _ Hb)).
  rewrite (compare_mdot _ _ A B (mdot_build _ _ [] Ha) (mdot_build _ _ [] Hb)). cbn [bind].
  destruct (Z.eqb_spec (mv_compare A B) 0); [lia|]. destruct (Z.ltb_spec (mv_compare A B) 0); [|lia].
  eexists. split; [reflexivity|]. intros u U pre Hu.
  rewrite match_span_maven by (apply (md_in _ _ Hu)).
  unfold span_contains. cbn [sp_rank sp_min sp_max sp_min_open sp_max_open compare_opt].
  rewrite (compare_mdot _ _ U A Hu (mdot_build _ _ [] Ha)). cbn [bind].
  rewrite (compare_mdot _ _ B U (mdot_build _ _ [] Hb) Hu).
  assert (Sm : sys_eqb (v_sys u) SMaven = true) by (rewrite (proj1 (md_in _ _ Hu)); reflexivity).
  rewrite Sm. cbn [negb andb].
  unfold restr_contains, restr_of. cbn [lo lo_incl hi hi_incl]. rewrite (mv_antisym U A), !negb_involutive.
  set (cA := mv_compare A U). set (cB := mv_compare B U).
  destruct mo, xo, pre; cbn [negb andb orb];
  repeat (match goal with
          | |- context [?a =? ?b] => destruct (Z.eqb_spec a b)
          | |- context [?a <? ?b] => destruct (Z.ltb_spec a b)
          end; cbn [andb orb negb bind]); try reflexivity; try lia.
Qed.

Ltac zcases :=
  repeat (match goal with
          | |- context [?a =? ?b] => destruct (Z.eqb_spec a b)
          | |- context [?a <? ?b] => destruct (Z.ltb_spec a b)
          end; cbn [andb orb negb bind]); try reflexivity; try lia.

(* equal bounds: a unit span; the open flags are not looked at by contains (F-C03-1a), so the
   agreement needs both ends closed *)
Theorem range_equal mn mx A B mo xo : mdot mn A -> mdot mx B -> mv_compare A B = 0 ->
  exists s, new_span mn mo mx xo = Ok s /\
    forall u U pre, mdot u U -> match_span u pre s = Ok (restr_contains (restr_of (Some A) false (Some A) false) U).
Proof.
  intros Ha Hb L.
  rewrite (new_span_cmp mn mo mx xo (nowild_mdot _ _ Ha) (nowild_mdot _ _ Hb)).
  rewrite (compare_mdot _ _ A B (mdot_build _ _ [] Ha) (mdot_build _ _ [] Hb)). cbn [bind]. rewrite L. cbn [Z.eqb].
  eexists. split; [reflexivity|]. intros u U pre Hu.
  rewrite match_span_maven by (apply (md_in _ _ Hu)).
  unfold span_contains. cbn [sp_rank sp_min compare_opt].
  rewrite (compare_mdot _ _ A U (mdot_build _ _ [] Ha) Hu). cbn [bind].
  unfold restr_contains, restr_of. cbn [lo lo_incl hi hi_incl negb andb]. zcases.
Qed.

(* [a] *)
Theorem range_point mn A : mdot mn A ->
  exists s, new_span_same mn false false = Ok s /\
    forall u U pre, mdot u U -> match_span u pre s = Ok (restr_contains (restr_of (Some A) false (Some A) false) U).
Proof.
  intros Ha. unfold new_span_same.
  rewrite (major_nowild _ (nowild_mdot _ _ Ha)), (set_tail_nowild mn 0 (nowild_mdot _ _ Ha) (or_introl eq_refl)).
  apply (range_equal mn mn A A false false Ha Ha).
  pose proof (mv_antisym A A). lia.
Qed.

(* the upper bound below the lower bound: rejected, as by Maven ("Range defies version ordering") *)
Theorem range_reversed mn mx A B mo xo : mdot mn A -> mdot mx B -> 0 < mv_compare A B ->
  new_span mn mo mx xo = Err E_max_less_min.
Proof.
  intros Ha Hb L.
  rewrite (new_span_cmp mn mo mx xo (nowild_mdot _ _ Ha) (nowild_mdot _ _ Hb)).
  rewrite (compare_mdot _ _ A B (mdot_build _ _ [] Ha) (mdot_build _ _ [] Hb)). cbn [bind]. zcases.
Qed.

(* no upper bound: the parser supplies a version without extension whose numbers are infinity *)
Definition inf_maven : version := new_version SMaven s_inf3 infinity.

Lemma compare_mdot_inf a A b : mdot a A -> compare (vset_build a b) (vset_build inf_maven []) = Ok (-1).
Proof.
  intros Ha. unfold compare. cbn [v_sys vset_build inf_maven new_version v_ext].
  rewrite (proj1 (md_in _ _ Ha)). cbn [sys_eqb sys_index Z.eqb Pos.eqb negb].
  destruct (v_ext a); unfold generic_compare; cbn [v_num v_pre vset_build]; rewrite (md_num _ _ Ha), (md_pre _ _ Ha); reflexivity.
Qed.

Lemma compare_inf_mdot a A : mdot a A -> compare (vset_build inf_maven []) a = Ok 1.
Proof.
  intros Ha. unfold compare. cbn [v_sys vset_build inf_maven new_version v_ext].
  rewrite (proj1 (md_in _ _ Ha)). cbn [sys_eqb sys_index Z.eqb Pos.eqb negb].
  unfold generic_compare; cbn [v_num v_pre vset_build]; rewrite (md_num _ _ Ha), (md_pre _ _ Ha); reflexivity.
Qed.

Theorem range_lower_only mn A mo : mdot mn A ->
  exists s, new_span mn mo inf_maven false = Ok s /\
    forall u U pre, mdot u U -> match_span u pre s = Ok (restr_contains (restr_of (Some A) mo None false) U).
Proof.
  intros Ha.
  rewrite (new_span_cmp mn mo inf_maven false (nowild_mdot _ _ Ha) eq_refl).
  rewrite (compare_mdot_inf mn A [] Ha). cbn [bind Z.eqb Z.ltb Z.compare].
  eexists. split; [reflexivity|]. intros u U pre Hu.
  rewrite match_span_maven by (apply (md_in _ _ Hu)).
  unfold span_contains. cbn [sp_rank sp_min sp_max sp_min_open sp_max_open compare_opt].
  rewrite (compare_mdot _ _ U A Hu (mdot_build _ _ [] Ha)). cbn [bind].
  rewrite (compare_inf_mdot u U Hu).
  assert (Sm : sys_eqb (v_sys u) SMaven = true) by (rewrite (proj1 (md_in _ _ Hu)); reflexivity).
  rewrite Sm. cbn [negb andb Z.eqb Z.ltb Z.compare orb].
  unfold restr_contains, restr_of. cbn [lo lo_incl hi hi_incl]. rewrite (mv_antisym U A), !negb_involutive.
  destruct mo, pre; cbn [negb andb orb]; zcases.
Qed.

(* no lower bound: the parser is asked for the version 0, closed; for candidates >= 0 (all
   dotted-integer versions) that is Maven's unbounded lower end *)
Lemma zero_below U : nonneg U -> mv_compare [0] U <= 0.
Proof.
  intros H. destruct U as [|x U]; [simpl; lia|]. inversion H as [|? ? Hx HU]; subst. simpl.
  unfold zcmp. destruct (Z.compare_spec 0 x); simpl; try lia.
  clear - HU. induction HU as [|y U Hy _ IH]; simpl; [lia|].
  unfold zcmp. destruct (Z.compare_spec y 0); simpl; lia.
Qed.

Lemma restr_lower_zero U xo B : nonneg U ->
  restr_contains (restr_of (Some [0]) false B xo) U = restr_contains (restr_of None false B xo) U.
Proof.
  intros H. unfold restr_contains, restr_of. cbn [lo lo_incl hi hi_incl negb andb].
  pose proof (zero_below U H). zcases.
Qed.

Theorem range_upper_only mz mx B xo : mdot mz [0] -> mdot mx B -> mv_compare [0] B < 0 ->
  exists s, new_span mz false mx xo = Ok s /\
    forall u U pre, mdot u U -> match_span u pre s = Ok (restr_contains (restr_of None false (Some B) xo) U).
Proof.
  intros Hz Hb L. destruct (range_two mz mx [0] B false xo Hz Hb L) as (s & E & M).
  exists s. split; [exact E|]. intros u U pre Hu. rewrite (M u U pre Hu).
  f_equal. apply restr_lower_zero. apply (md_nonneg _ _ Hu).
Qed.

(* ---------------------------------------------------------------- the soft requirement *)
(* setRange builds, for a bare version token tok, the span of >= applied to a fresh version with
   the numbers 0.0.0 (whatever tok is); it contains every dotted-integer candidate *)
Theorem soft_span pv tok :
  exists s, op_version_to_span pv go_tokGreaterEqual (new_version SMaven tok 0) = Ok s /\
    forall u U pre, mdot u U -> match_span u pre s = Ok true.
Proof.
  eexists. split; [vm_compute; reflexivity|]. intros u U pre Hu.
  rewrite match_span_maven by (apply (md_in _ _ Hu)).
  unfold span_contains. cbn [sp_rank sp_min sp_max sp_min_open sp_max_open compare_opt].
  assert (Sm : v_sys u = SMaven) by (apply (md_in _ _ Hu)).
  unfold compare. cbn [v_sys v_ext]. rewrite Sm. cbn [sys_eqb sys_index Z.eqb Pos.eqb negb].
  destruct (v_ext u) eqn:E; unfold generic_compare; cbn [v_num v_pre]; rewrite (md_num _ _ Hu), (md_pre _ _ Hu);
    cbn; rewrite ?Sm; destruct pre; reflexivity.
Qed.

(* the same through setRange, given what the tokenizer and the version parser answer for the text *)
Theorem set_range_soft pv st tok i po v :
  Token.token SMaven (ps_rest st) = Ok (go_tokVersion, tok, i) ->
  parse_public pv SMaven tok = Ok po -> po_err po = false -> po_v po = Some v ->
  exists s st', set_range pv SMaven st = Ok ({| set_sys := SMaven; set_span := [s] |}, true, st') /\
    forall u U pre, mdot u U -> set_match_version {| set_sys := SMaven; set_span := [s] |} u pre = Ok true.
Proof.
  intros T P E V. destruct (soft_span pv tok) as (s & Es & M).
  exists s. eexists. split.
  - unfold set_range. rewrite T. cbn [bind]. change (go_tokVersion =? go_tokEOF) with false.
    change (go_tokVersion =? go_tokInvalid) with false. change (go_tokVersion =? go_tokWildcard) with false.
    cbn [andb]. unfold is_ver_or_wild. change (go_tokVersion =? go_tokVersion) with true. cbn [orb].
    rewrite P. cbn [bind]. rewrite E, V. cbn [opt_version bind sys_eqb sys_index Z.eqb Pos.eqb].
    rewrite Es. cbn [bind]. reflexivity.
  - intros u U pre Hu. unfold set_match_version. cbn [set_span].
    rewrite (proj1 (md_in _ _ Hu)). cbn [sys_eqb sys_index Z.eqb Pos.eqb match_spans].
    rewrite (M u U pre Hu). reflexivity.
Qed.

(* ---------------------------------------------------------------- the comma list *)
(* Maven sets are not canonicalised; a candidate is in the set iff some span contains it *)
Lemma canon_maven l : sys_of_span l = SMaven -> canon_spans l = Ok l.
Proof. intros H. unfold canon_spans. rewrite H. destruct (length l <=? 1)%nat; reflexivity. Qed.

Definition span_is (s : span) (r : mrestr) : Prop :=
  forall u U pre, mdot u U -> match_span u pre s = Ok (restr_contains r U).

Theorem union_sound l rs : Forall2 span_is l rs -> l <> [] ->
  forall u U pre, mdot u U ->
    set_match_version {| set_sys := SMaven; set_span := l |} u pre = Ok (contains (MRanges rs) U).
Proof.
  intros F Hne u U pre Hu. unfold set_match_version. cbn [set_span].
  rewrite (proj1 (md_in _ _ Hu)). cbn [sys_eqb sys_index Z.eqb Pos.eqb].
  assert (G : match_spans u pre l = Ok (contains (MRanges rs) U)).
  { clear Hne. induction F as [|s r l rs Hs _ IH]; [reflexivity|].
    cbn [match_spans contains existsb]. rewrite (Hs u U pre Hu). cbn [bind].
    destruct (restr_contains r U); [reflexivity|]. exact IH. }
  destruct l; [congruence | exact G].
Qed.

(* ---------------------------------------------------------------- refuted: (,0) *)
(* an exclusive upper bound equal to the implicit lower bound 0 gives a unit span, which ignores
   its open end: deps.dev's (,0) contains 0, Maven's contains nothing (class F-C03-1a) *)
Theorem point_refuted mz mx u pre : mdot mz [0] -> mdot mx [0] -> mdot u [0] ->
  exists s, new_span mz false mx true = Ok s /\ match_span u pre s = Ok true /\
            restr_contains (restr_of None false (Some [0]) true) [0] = false.
Proof.
  intros Hz Hx Hu. destruct (range_equal mz mx [0] [0] false true Hz Hx eq_refl) as (s & E & M).
  exists s. split; [exact E|]. split; [|reflexivity]. rewrite (M u [0] pre Hu). reflexivity.
Qed.

(* ---------------------------------------------------------------- the hypotheses are inhabited *)
Definition mk_maven (str : bytes) (l : list mvn_elem) : version :=
  {| v_sys := SMaven; v_user_num_count := 0; v_is_prerelease := false; v_str := str;
     v_num := []; v_pre := []; v_build := []; v_ext := MavenExt l |}.
Definition el (sep : N) (str : bytes) (n : Z) : mvn_elem := {| me_sep := sep; me_str := str; me_int := n |}.

(* 0, 1.2 (also written 1.2.0) and 2 as the Go parser delivers them (VerifDump) *)
Definition v_0 : version := mk_maven [48%N] [el 0 [48%N] 0].
Definition v_1_2 : version := mk_maven [49;46;50]%N [el 0 [49%N] 1; el 46 [50%N] 2].
Definition v_2 : version := mk_maven [50%N] [el 0 [50%N] 2].

Lemma mdot_intro str l ints : d_mvn_wide l = true -> mvn_tail l = [] -> map me_int (mvn_prefix l) = mtrim ints ->
  ints <> [] -> forallb (fun x => 0 <=? x) ints = true -> mdot (mk_maven str l) ints.
Proof.
  intros D T I N F. split; auto.
  - split; [reflexivity|]. split; [reflexivity|exact D].
  - apply Forall_forall. intros x Hx. rewrite forallb_forall in F. apply Z.leb_le. apply F. exact Hx.
Qed.

Lemma mdot_v_0 : mdot v_0 [0].
Proof. apply mdot_intro; try reflexivity; discriminate. Qed.
Lemma mdot_v_1_2 : mdot v_1_2 [1; 2; 0].
Proof. apply mdot_intro; try reflexivity; discriminate. Qed.
Lemma mdot_v_2 : mdot v_2 [2].
Proof. apply mdot_intro; try reflexivity; discriminate. Qed.
