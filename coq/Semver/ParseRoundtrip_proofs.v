(* Print/parse inversion for the SemVer family (C10): the canonical string of every parsed
   version parses again in the same system; on the domain c10_family_dom (every version
   without a wildcard; wildcard versions without prerelease whose numbers after the first
   wildcard are zero) the result compares equal to the original and has the same canonical
   string.  Outside that domain the clause is refuted (Properties/C10.v). *)
From Coq Require Import Lia.
From DepsDev Require Import Lib.Base Lib.Order Semver.Version Gen.SemverTables Semver.Parse Spec.SemverSpec
  Semver.SemverSpec_proofs Semver.Generic_proofs Semver.ParseLex_proofs Semver.ParseRender_proofs
  Semver.ParseSound_proofs Semver.Dec_proofs Semver.CanonNums_proofs.
Local Open Scope Z_scope.

Local Arguments infinity : simpl never.

(* ------------------------------------------------------------------ tokens of the canonical numbers *)
Definition tv (v : Z) : bytes * Z := (tok v, v).

Lemma numtok_tok sy v : numval_ok sy v -> numtok sy (tok v) v.
Proof.
  intros [(E & W)|R].
  - subst v. left. repeat split. exact W.
  - right. unfold tok. assert (E : (v =? wildcard) = false) by (apply Z.eqb_neq; unfold wildcard; lia). rewrite E.
    destruct (Z_to_dec_sound v ltac:(lia)) as (D & Ne & V & LZ).
    split; [exact Ne|]. split; [exact D|]. split; [unfold lead_zero; rewrite LZ; reflexivity|].
    split; [rewrite V; lia | symmetry; exact V].
Qed.

Lemma room_of_lenok sy k n : family sy -> lenok sy n = true -> (k < n)%nat -> room sy k = true.
Proof.
  intros F L H. destruct F as [F|[F|[F|[F|[F|F]]]]]; subst sy; cbn [lenok room] in *; try reflexivity;
    apply Nat.leb_le in L; apply Nat.ltb_lt; lia.
Qed.

Lemma toks_ok_canon sy : family sy -> forall xs nums, wl xs -> Forall (numval_ok sy) xs ->
  lenok sy (length nums + length xs) = true -> is_wildcard nums = false ->
  toks_ok sy nums (map tv xs).
Proof.
  intros F. induction xs as [|x t IH]; intros nums W Fa L Wn; [exact I|].
  destruct W as [W1 W2]. inversion Fa as [|? ? Fx Ft]; subst.
  cbn [map tv toks_ok]. fold (tv x).
  split; [apply numtok_tok; exact Fx|].
  split; [apply (room_of_lenok sy _ _ F L); cbn [length]; lia|].
  split; [rewrite Wn; apply andb_false_r|].
  destruct t as [|y t']; [exact I|].
  apply IH; [exact W2 | exact Ft | rewrite app_length; cbn [length] in *; rewrite <- L; f_equal; lia |].
  rewrite is_wildcard_app, Wn. unfold is_wildcard. cbn [existsb orb].
  destruct (x =? wildcard) eqn:E; [|reflexivity]. apply Z.eqb_eq in E. specialize (W1 E). discriminate.
Qed.

(* ------------------------------------------------------------------ lower case *)
Lemma ascii_lower_small c : (128 <= c)%N -> ascii_lower c = c.
Proof.
  intros H. unfold ascii_lower. destruct (N.leb_spec c 90); [lia|]. rewrite andb_false_r. reflexivity.
Qed.

Lemma identc_big c : (128 <= c)%N -> identc c = false.
Proof. intros H. destruct (identc c) eqn:E; [|reflexivity]. apply identc_small in E. lia. Qed.

Lemma identc_lower c : identc (ascii_lower c) = identc c.
Proof.
  destruct (N.lt_ge_cases c 128) as [H|H].
  - assert (F : forallb (fun c => Bool.eqb (identc (ascii_lower c)) (identc c)) all128 = true) by (vm_compute; reflexivity).
    apply Bool.eqb_prop. exact (finite128 _ F c H).
  - rewrite (ascii_lower_small c H). reflexivity.
Qed.

Lemma lower_42 c : N.eqb (ascii_lower c) 42 = N.eqb c 42.
Proof.
  unfold ascii_lower. destruct ((65 <=? c)%N && (c <=? 90)%N) eqn:E; [|reflexivity].
  apply andb_true_iff in E. destruct E as [E1 E2]. apply N.leb_le in E1, E2.
  destruct (N.eqb_spec (c + 32) 42), (N.eqb_spec c 42); try reflexivity; lia.
Qed.

Lemma elem_chars_lower ng e : forall seen, elem_chars ng seen (to_lower e) = elem_chars ng seen e.
Proof.
  induction e as [|c e IH]; intros seen; [reflexivity|].
  cbn [to_lower map elem_chars]. fold (to_lower e). rewrite identc_lower, lower_42.
  destruct (identc c); [apply IH|]. destruct (ng && N.eqb c 42 && negb seen); [apply IH | reflexivity].
Qed.

Lemma elemb_lower sy e : elemb sy (to_lower e) = elemb sy e.
Proof. destruct e as [|c e]; [reflexivity|]. unfold elemb. change (to_lower (c :: e)) with (ascii_lower c :: to_lower e).
  exact (elem_chars_lower (sys_eqb sy SNuGet) (c :: e) false). Qed.

Lemma ascii_lower_idem c : ascii_lower (ascii_lower c) = ascii_lower c.
Proof.
  unfold ascii_lower at 2 3. destruct ((65 <=? c)%N && (c <=? 90)%N) eqn:E; [|unfold ascii_lower; rewrite E; reflexivity].
  apply andb_true_iff in E. destruct E as [E1 E2]. apply N.leb_le in E1, E2.
  unfold ascii_lower. destruct (N.leb_spec (c + 32) 90); [lia|]. rewrite andb_false_r. reflexivity.
Qed.

Lemma to_lower_idem e : to_lower (to_lower e) = to_lower e.
Proof. unfold to_lower. rewrite map_map. apply map_ext. apply ascii_lower_idem. Qed.

(* ------------------------------------------------------------------ comparison: numbers *)
Definition allz (z : list Z) : bool := forallb (fun n => n =? 0) z.

Lemma allz_repeat n : allz (repeat 0 n) = true.
Proof. induction n; [reflexivity|]. cbn [repeat allz forallb]. exact IHn. Qed.

Lemma cmp_zero_l_allz z : allz z = true -> cmp_zero_l z = 0.
Proof.
  induction z as [|x z IH]; [reflexivity|]. cbn [allz forallb cmp_zero_l]. intros H.
  apply andb_true_iff in H. destruct H as [H1 H2]. apply Z.eqb_eq in H1. subst x. cbn. exact (IH H2).
Qed.

Lemma cmp_zero_r_allz z : allz z = true -> cmp_zero_r z = 0.
Proof.
  induction z as [|x z IH]; [reflexivity|]. cbn [allz forallb cmp_zero_r]. intros H.
  apply andb_true_iff in H. destruct H as [H1 H2]. apply Z.eqb_eq in H1. subst x. cbn. exact (IH H2).
Qed.

Lemma compare_nums_allz z1 : forall z2, allz z1 = true -> allz z2 = true -> compare_nums z1 z2 = 0.
Proof.
  induction z1 as [|x z1 IH]; intros [|y z2] H1 H2.
  - reflexivity.
  - exact (cmp_zero_r_allz _ H2).
  - exact (cmp_zero_l_allz _ H1).
  - cbn [allz forallb] in H1, H2. apply andb_true_iff in H1, H2. destruct H1 as [A1 A2], H2 as [B1 B2].
    apply Z.eqb_eq in A1, B1. subst x y. cbn [compare_nums]. change (sgnZ 0 0 =? 0) with true. cbv iota.
    exact (IH z2 A2 B2).
Qed.

Lemma compare_nums_common a z1 z2 : allz z1 = true -> allz z2 = true -> compare_nums (a ++ z1) (a ++ z2) = 0.
Proof.
  intros H1 H2. induction a as [|x a IH]; [exact (compare_nums_allz z1 z2 H1 H2)|].
  cbn [app compare_nums]. rewrite sgnZ_refl. cbn [Z.eqb]. exact IH.
Qed.

(* ------------------------------------------------------------------ comparison: NuGet elements *)
Lemma lower_low k c : (k < 65)%N -> N.eqb (ascii_lower c) k = N.eqb c k.
Proof.
  intros Hk. unfold ascii_lower. destruct ((65 <=? c)%N && (c <=? 90)%N) eqn:E; [|reflexivity].
  apply andb_true_iff in E. destruct E as [E1 E2]. apply N.leb_le in E1, E2.
  destruct (N.eqb_spec (c + 32) k), (N.eqb_spec c k); try reflexivity; lia.
Qed.

Lemma is_digit_lower c : is_digit (ascii_lower c) = is_digit c /\ (is_digit c = true -> ascii_lower c = c).
Proof.
  unfold ascii_lower, is_digit. destruct ((65 <=? c)%N && (c <=? 90)%N) eqn:E.
  - apply andb_true_iff in E. destruct E as [E1 E2]. apply N.leb_le in E1, E2.
    destruct (N.leb_spec 48 (c + 32)), (N.leb_spec (c + 32) 57), (N.leb_spec 48 c), (N.leb_spec c 57);
      cbn [andb]; split; try reflexivity; try lia; intros; discriminate.
  - split; reflexivity.
Qed.

Lemma digits_val_lower t : forall acc, digits_val (to_lower t) acc = digits_val t acc.
Proof.
  induction t as [|c t IH]; intros acc; [reflexivity|].
  change (to_lower (c :: t)) with (ascii_lower c :: to_lower t). cbn [digits_val].
  destruct (is_digit_lower c) as [E1 E2]. rewrite E1. destruct (is_digit c) eqn:D; [|reflexivity].
  rewrite (E2 eq_refl). apply IH.
Qed.

Lemma is_numeric_lower sy e : is_numeric sy (to_lower e) = is_numeric sy e.
Proof.
  destruct e as [|c t]; [reflexivity|].
  change (to_lower (c :: t)) with (ascii_lower c :: to_lower t). unfold is_numeric.
  rewrite (lz_match c t), (lz_match (ascii_lower c) (to_lower t)), (sign_match c t), (sign_match (ascii_lower c) (to_lower t)).
  unfold to_lower at 1. rewrite map_length.
  rewrite !(lower_low _ c) by lia.
  destruct (N.eqb c 48 && negb (Nat.eqb (length t) 0) && negb (sys_eqb sy SNPM)); [reflexivity|].
  destruct (N.eqb c 45) eqn:E45; [reflexivity|]. destruct (N.eqb c 43) eqn:E43; [reflexivity|]. cbn [orb].
  assert (L43 : N.eqb (ascii_lower c) 43 = false) by (rewrite lower_low by lia; exact E43).
  assert (L45 : N.eqb (ascii_lower c) 45 = false) by (rewrite lower_low by lia; exact E45).
  set (bits := if sys_eqb sy SNuGet then 32 else 64).
  rewrite (parse_int_nosign c t bits E43 E45), (parse_int_nosign (ascii_lower c) (to_lower t) bits L43 L45).
  change (ascii_lower c :: to_lower t) with (to_lower (c :: t)). rewrite digits_val_lower. reflexivity.
Qed.

Lemma nuget_compare_lower x : nuget_compare x (to_lower x) = 0.
Proof.
  induction x as [|c x IH]; [reflexivity|].
  change (to_lower (c :: x)) with (ascii_lower c :: to_lower x). cbn [nuget_compare].
  rewrite ascii_lower_idem, sgnZ_refl. cbn [Z.eqb]. exact IH.
Qed.

Lemma compare_elem_lower x : compare_elem SNuGet x (to_lower x) = 0.
Proof.
  unfold compare_elem. rewrite is_numeric_lower. destruct (is_numeric SNuGet x); [apply sgnZ_refl|].
  change (sys_eqb SNuGet SNuGet) with true. cbv iota. apply nuget_compare_lower.
Qed.

Lemma compare_pre_lower p : compare_pre SNuGet p (map to_lower p) = 0.
Proof.
  induction p as [|x p IH]; [reflexivity|]. cbn [map compare_pre]. rewrite compare_elem_lower. cbn [Z.eqb]. exact IH.
Qed.

Lemma compare_pre_refl sy p : compare_pre sy p p = 0.
Proof. exact (cc_refl _ _ (compare_pre_core sy) p I). Qed.
