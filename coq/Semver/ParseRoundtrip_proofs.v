(* Print/parse inversion for the SemVer family (C10): the canonical string of every parsed
   version parses again in the same system; on the domain c10_family_dom (every version
   without a wildcard; wildcard versions without prerelease whose numbers after the first
   wildcard are zero) the result compares equal to the original and has the same canonical
   string.  Outside that domain the clause is refuted (Properties/C10.v). *)
From Coq Require Import Lia.
From DepsDev Require Import Lib.Base Lib.Order Semver.Version Gen.SemverTables Semver.Parse Spec.SemverSpec
  Semver.SemverSpec_proofs Semver.Generic_proofs Semver.ParseLex_proofs Semver.ParseRender_proofs
  Semver.ParseSound_proofs Semver.Dec_proofs Semver.CanonNums_proofs.
Local Open Scope Z_scope.

Local Arguments infinity : simpl never.

(* ------------------------------------------------------------------ tokens of the canonical numbers *)
Definition tv (v : Z) : bytes * Z := (tok v, v).

Lemma numtok_tok sy v : numval_ok sy v -> numtok sy (tok v) v.
Proof.
  intros [(E & W)|R].
  - subst v. left. repeat split. exact W.
  - right. unfold tok. assert (E : (v =? wildcard) = false) by (apply Z.eqb_neq; unfold wildcard; lia). rewrite E.
    destruct (Z_to_dec_sound v ltac:(lia)) as (D & Ne & V & LZ).
    split; [exact Ne|]. split; [exact D|]. split; [unfold lead_zero; rewrite LZ; reflexivity|].
    split; [rewrite V; lia | symmetry; exact V].
Qed.

Lemma room_of_lenok sy k n : family sy -> lenok sy n = true -> (k < n)%nat -> room sy k = true.
Proof.
  intros F L H. destruct F as [F|[F|[F|[F|[F|F]]]]]; subst sy; cbn [lenok room] in *; try reflexivity;
    apply Nat.leb_le in L; apply Nat.ltb_lt; lia.
Qed.

Lemma toks_ok_canon sy : family sy -> forall xs nums, wl xs -> Forall (numval_ok sy) xs ->
  lenok sy (length nums + length xs) = true -> is_wildcard nums = false ->
  toks_ok sy nums (map tv xs).
Proof.
  intros F. induction xs as [|x t IH]; intros nums W Fa L Wn; [exact I|].
  destruct W as [W1 W2]. inversion Fa as [|? ? Fx Ft]; subst.
  cbn [map tv toks_ok]. fold (tv x).
  split; [apply numtok_tok; exact Fx|].
  split; [apply (room_of_lenok sy _ _ F L); cbn [length]; lia|].
  split; [rewrite Wn; apply andb_false_r|].
  destruct t as [|y t']; [exact I|].
  apply IH; [exact W2 | exact Ft | rewrite app_length; cbn [length] in *; rewrite <- L; f_equal; lia |].
  rewrite is_wildcard_app, Wn. unfold is_wildcard. cbn [existsb orb].
  destruct (x =? wildcard) eqn:E; [|reflexivity]. apply Z.eqb_eq in E. specialize (W1 E). discriminate.
Qed.

(* ------------------------------------------------------------------ lower case *)
Lemma ascii_lower_small c : (128 <= c)%N -> ascii_lower c = c.
Proof.
  intros H. unfold ascii_lower. destruct (N.leb_spec c 90); [lia|]. rewrite andb_false_r. reflexivity.
Qed.

Lemma identc_big c : (128 <= c)%N -> identc c = false.
Proof. intros H. destruct (identc c) eqn:E; [|reflexivity]. apply identc_small in E. lia. Qed.

Lemma identc_lower c : identc (ascii_lower c) = identc c.
Proof.
  destruct (N.lt_ge_cases c 128) as [H|H].
  - assert (F : forallb (fun c => Bool.eqb (identc (ascii_lower c)) (identc c)) all128 = true) by (vm_compute; reflexivity).
    apply Bool.eqb_prop. exact (finite128 _ F c H).
  - rewrite (ascii_lower_small c H). reflexivity.
Qed.

Lemma lower_42 c : N.eqb (ascii_lower c) 42 = N.eqb c 42.
Proof.
  unfold ascii_lower. destruct ((65 <=? c)%N && (c <=? 90)%N) eqn:E; [|reflexivity].
  apply andb_true_iff in E. destruct E as [E1 E2]. apply N.leb_le in E1, E2.
  destruct (N.eqb_spec (c + 32) 42), (N.eqb_spec c 42); try reflexivity; lia.
Qed.

Lemma elem_chars_lower ng e : forall seen, elem_chars ng seen (to_lower e) = elem_chars ng seen e.
Proof.
  induction e as [|c e IH]; intros seen; [reflexivity|].
  cbn [to_lower map elem_chars]. fold (to_lower e). rewrite identc_lower, lower_42.
  destruct (identc c); [apply IH|]. destruct (ng && N.eqb c 42 && negb seen); [apply IH | reflexivity].
Qed.

Lemma elemb_lower sy e : elemb sy (to_lower e) = elemb sy e.
Proof. destruct e as [|c e]; [reflexivity|]. unfold elemb. change (to_lower (c :: e)) with (ascii_lower c :: to_lower e).
  exact (elem_chars_lower (sys_eqb sy SNuGet) (c :: e) false). Qed.

Lemma ascii_lower_idem c : ascii_lower (ascii_lower c) = ascii_lower c.
Proof.
  unfold ascii_lower at 2 3. destruct ((65 <=? c)%N && (c <=? 90)%N) eqn:E; [|unfold ascii_lower; rewrite E; reflexivity].
  apply andb_true_iff in E. destruct E as [E1 E2]. apply N.leb_le in E1, E2.
  unfold ascii_lower. destruct (N.leb_spec (c + 32) 90); [lia|]. rewrite andb_false_r. reflexivity.
Qed.

Lemma to_lower_idem e : to_lower (to_lower e) = to_lower e.
Proof. unfold to_lower. rewrite map_map. apply map_ext. apply ascii_lower_idem. Qed.

(* ------------------------------------------------------------------ comparison: numbers *)
Definition allz (z : list Z) : bool := forallb (fun n => n =? 0) z.

Lemma allz_repeat n : allz (repeat 0 n) = true.
Proof. induction n; [reflexivity|]. cbn [repeat allz forallb]. exact IHn. Qed.

Lemma cmp_zero_l_allz z : allz z = true -> cmp_zero_l z = 0.
Proof.
  induction z as [|x z IH]; [reflexivity|]. cbn [allz forallb cmp_zero_l]. intros H.
  apply andb_true_iff in H. destruct H as [H1 H2]. apply Z.eqb_eq in H1. subst x. cbn. exact (IH H2).
Qed.

Lemma cmp_zero_r_allz z : allz z = true -> cmp_zero_r z = 0.
Proof.
  induction z as [|x z IH]; [reflexivity|]. cbn [allz forallb cmp_zero_r]. intros H.
  apply andb_true_iff in H. destruct H as [H1 H2]. apply Z.eqb_eq in H1. subst x. cbn. exact (IH H2).
Qed.

Lemma compare_nums_allz z1 : forall z2, allz z1 = true -> allz z2 = true -> compare_nums z1 z2 = 0.
Proof.
  induction z1 as [|x z1 IH]; intros [|y z2] H1 H2.
  - reflexivity.
  - exact (cmp_zero_r_allz _ H2).
  - exact (cmp_zero_l_allz _ H1).
  - cbn [allz forallb] in H1, H2. apply andb_true_iff in H1, H2. destruct H1 as [A1 A2], H2 as [B1 B2].
    apply Z.eqb_eq in A1, B1. subst x y. cbn [compare_nums]. change (sgnZ 0 0 =? 0) with true. cbv iota.
    exact (IH z2 A2 B2).
Qed.

Lemma compare_nums_common a z1 z2 : allz z1 = true -> allz z2 = true -> compare_nums (a ++ z1) (a ++ z2) = 0.
Proof.
  intros H1 H2. induction a as [|x a IH]; [exact (compare_nums_allz z1 z2 H1 H2)|].
  cbn [app compare_nums]. rewrite sgnZ_refl. cbn [Z.eqb]. exact IH.
Qed.

(* ------------------------------------------------------------------ comparison: NuGet elements *)
Lemma lower_low k c : (k < 65)%N -> N.eqb (ascii_lower c) k = N.eqb c k.
Proof.
  intros Hk. unfold ascii_lower. destruct ((65 <=? c)%N && (c <=? 90)%N) eqn:E; [|reflexivity].
  apply andb_true_iff in E. destruct E as [E1 E2]. apply N.leb_le in E1, E2.
  destruct (N.eqb_spec (c + 32) k), (N.eqb_spec c k); try reflexivity; lia.
Qed.

Lemma is_digit_lower c : is_digit (ascii_lower c) = is_digit c /\ (is_digit c = true -> ascii_lower c = c).
Proof.
  unfold ascii_lower, is_digit. destruct ((65 <=? c)%N && (c <=? 90)%N) eqn:E.
  - apply andb_true_iff in E. destruct E as [E1 E2]. apply N.leb_le in E1, E2.
    destruct (N.leb_spec 48 (c + 32)), (N.leb_spec (c + 32) 57), (N.leb_spec 48 c), (N.leb_spec c 57);
      cbn [andb]; split; try reflexivity; try lia; intros; discriminate.
  - split; reflexivity.
Qed.

Lemma digits_val_lower t : forall acc, digits_val (to_lower t) acc = digits_val t acc.
Proof.
  induction t as [|c t IH]; intros acc; [reflexivity|].
  change (to_lower (c :: t)) with (ascii_lower c :: to_lower t). cbn [digits_val].
  destruct (is_digit_lower c) as [E1 E2]. rewrite E1. destruct (is_digit c) eqn:D; [|reflexivity].
  rewrite (E2 eq_refl). apply IH.
Qed.

Lemma is_numeric_lower sy e : is_numeric sy (to_lower e) = is_numeric sy e.
Proof.
  destruct e as [|c t]; [reflexivity|].
  change (to_lower (c :: t)) with (ascii_lower c :: to_lower t). unfold is_numeric.
  rewrite (lz_match c t), (lz_match (ascii_lower c) (to_lower t)), (sign_match c t), (sign_match (ascii_lower c) (to_lower t)).
  unfold to_lower at 1. rewrite map_length.
  rewrite !(lower_low _ c) by lia.
  destruct (N.eqb c 48 && negb (Nat.eqb (length t) 0) && negb (sys_eqb sy SNPM)); [reflexivity|].
  destruct (N.eqb c 45) eqn:E45; [reflexivity|]. destruct (N.eqb c 43) eqn:E43; [reflexivity|]. cbn [orb].
  assert (L43 : N.eqb (ascii_lower c) 43 = false) by (rewrite lower_low by lia; exact E43).
  assert (L45 : N.eqb (ascii_lower c) 45 = false) by (rewrite lower_low by lia; exact E45).
  set (bits := if sys_eqb sy SNuGet then 32 else 64).
  rewrite (parse_int_nosign c t bits E43 E45), (parse_int_nosign (ascii_lower c) (to_lower t) bits L43 L45).
  change (ascii_lower c :: to_lower t) with (to_lower (c :: t)). rewrite digits_val_lower. reflexivity.
Qed.

Lemma nuget_compare_lower x : nuget_compare x (to_lower x) = 0.
Proof.
  induction x as [|c x IH]; [reflexivity|].
  change (to_lower (c :: x)) with (ascii_lower c :: to_lower x). cbn [nuget_compare].
  rewrite ascii_lower_idem, sgnZ_refl. cbn [Z.eqb]. exact IH.
Qed.

Lemma compare_elem_lower x : compare_elem SNuGet x (to_lower x) = 0.
Proof.
  unfold compare_elem. rewrite is_numeric_lower. destruct (is_numeric SNuGet x); [apply sgnZ_refl|].
  change (sys_eqb SNuGet SNuGet) with true. cbv iota. apply nuget_compare_lower.
Qed.

Lemma compare_pre_lower p : compare_pre SNuGet p (map to_lower p) = 0.
Proof.
  induction p as [|x p IH]; [reflexivity|]. cbn [map compare_pre]. rewrite compare_elem_lower. cbn [Z.eqb]. exact IH.
Qed.

Lemma compare_pre_refl sy p : compare_pre sy p p = 0.
Proof. exact (cc_refl _ _ (compare_pre_core sy) p I). Qed.

(* ------------------------------------------------------------------ the canonical string as rendered text *)
Definition lowf (sy : system) : bytes -> bytes := if sys_eqb sy SNuGet then to_lower else (fun x => x).
Definition showb (sb : bool) (sy : system) : bool := if sys_eqb sy SNuGet then false else sb.

Lemma dots_map (f : bytes -> bytes) ps : flat_map (fun q => 46%N :: f q) ps = dots (map f ps).
Proof. induction ps as [|p ps IH]; [reflexivity|]. cbn [flat_map map dots]. fold (dots (map f ps)). rewrite IH. reflexivity. Qed.

Lemma canon_shape sb v :
  generic_canon sb v =
  pfx (v_sys v) ++ pr true (cnums (v_num v)) ++
  (if is_wildcard (v_num v) then []
   else r_pre (map (lowf (v_sys v)) (v_pre v)) ++ (if showb sb (v_sys v) then v_build v else [])).
Proof.
  unfold generic_canon. fold (pfx (v_sys v)). rewrite print_nums_cnums.
  destruct (is_wildcard (v_num v)); [rewrite app_nil_r; reflexivity|].
  fold (showb sb (v_sys v)). fold (lowf (v_sys v)). rewrite <- app_assoc. f_equal. f_equal. f_equal.
  destruct (v_pre v) as [|p ps]; [reflexivity|]. cbn [map r_pre]. unfold joind. rewrite dots_map. reflexivity.
Qed.

(* ------------------------------------------------------------------ facts about the canonical numbers of a parsed version *)
Lemma Forall_cut_wild (P : Z -> Prop) m : Forall P m -> Forall P (cut_wild m).
Proof.
  induction 1 as [|x m Hx _ IH]; [constructor|]. cbn [cut_wild].
  destruct (x =? wildcard); constructor; auto.
Qed.

Lemma lenok_le sy n m : lenok sy n = true -> (m <= n)%nat -> lenok sy m = true.
Proof. destruct sy; cbn [lenok]; intros H L; try reflexivity; apply Nat.leb_le in H; apply Nat.leb_le; lia. Qed.

Lemma lenok_3 sy : lenok sy 3 = true. Proof. destruct sy; reflexivity. Qed.

Lemma cnums_facts sy l : nums_wf sy l ->
  Forall (numval_ok sy) (cnums l) /\ lenok sy (length (cnums l)) = true /\ cnums l <> [] /\
  nuget_trim sy (cnums l) = cnums l.
Proof.
  intros (W1 & W2 & W3 & W4).
  assert (Fp : Forall (numval_ok sy) (padz l)).
  { unfold padz. apply Forall_app. split; [exact W1|]. apply Forall_forall. intros x Hx. apply repeat_spec in Hx. subst x. apply zero_ok. }
  split; [apply Forall_cut_wild; exact Fp|].
  assert (Lp : lenok sy (length (padz l)) = true).
  { rewrite padz_length. destruct (Nat.max_spec 3 (length l)) as [[_ ->]|[_ ->]]; [exact W2 | apply lenok_3]. }
  split; [apply (lenok_le sy _ _ Lp); apply cut_wild_length|].
  split.
  { apply cut_wild_nonempty. intros E. apply (f_equal (@length Z)) in E. rewrite padz_length in E. cbn [length] in E. lia. }
  unfold nuget_trim. destruct (sys_eqb sy SNuGet) eqn:EN; [|reflexivity]. cbn [andb].
  destruct (Nat.eqb_spec (length (cnums l)) 4) as [E4|E4]; [|reflexivity]. cbn [andb].
  destruct (Z.eqb_spec (get_num (cnums l) 3) 0) as [Ez|Ez]; [|reflexivity]. exfalso.
  assert (ESy : sy = SNuGet) by (destruct sy; try (cbv in EN; discriminate EN); reflexivity). subst sy.
  cbn [lenok] in W2. apply Nat.leb_le in W2.
  pose proof (cut_wild_length (padz l)) as CL. fold (cnums l) in CL. rewrite padz_length in CL.
  assert (L4 : length l = 4%nat) by lia.
  assert (Ep : padz l = l) by (apply padz_long; lia).
  unfold cnums in *. rewrite Ep in *.
  pose proof (cut_after l) as CA.
  assert (G : get_num l 3 = get_num (cut_wild l) 3).
  { rewrite CA at 1. apply get_num_app_l. lia. }
  apply (W4 eq_refl L4). rewrite G. exact Ez.
Qed.

Lemma numval_not_inf sy v : numval_ok sy v -> v <> infinity.
Proof. intros [(E & _)|R]; [subst v; unfold wildcard, infinity; lia | lia]. Qed.

Lemma map_fst_tv t : map fst (map tv t) = map tok t.
Proof. rewrite map_map. apply map_ext. reflexivity. Qed.
Lemma map_snd_tv t : map snd (map tv t) = t.
Proof. rewrite map_map. cbn [tv snd]. apply map_id. Qed.

Lemma lowf_elemb sy e : elemb sy (lowf sy e) = elemb sy e.
Proof. unfold lowf. destruct (sys_eqb sy SNuGet); [apply elemb_lower | reflexivity]. Qed.

Lemma lowf_idem sy e : lowf sy (lowf sy e) = lowf sy e.
Proof. unfold lowf. destruct (sys_eqb sy SNuGet); [apply to_lower_idem | reflexivity]. Qed.

(* ------------------------------------------------------------------ the re-parse *)
Definition c10_family_dom (sy : system) (v : version) : bool :=
  negb (is_wildcard (v_num v)) || (null (v_pre v) && allz (after_wild (v_num v))).

(* the version read back from the canonical string *)
Definition reparsed (sb : bool) (sy : system) (v : version) : version :=
  let w := is_wildcard (v_num v) in
  let pre' := if w then [] else map (lowf sy) (v_pre v) in
  {| v_sys := sy; v_user_num_count := Z.of_nat (length (cnums (v_num v)));
     v_is_prerelease := negb (null pre'); v_str := generic_canon sb v;
     v_num := finish_nums sy (cnums (v_num v)); v_pre := pre';
     v_build := if w then [] else if showb sb sy then v_build v else []; v_ext := NoExt |}.

Theorem canon_parses sb sy v : family sy -> wf_parsed sy v ->
  parse sy (generic_canon sb v) = Ok (reparsed sb sy v).
Proof.
  intros F (Esys & Eext & Wn & Fpre & bl & Eb & Fbl).
  destruct (cnums_facts sy (v_num v) Wn) as (C1 & C2 & C3 & C4).
  set (w := is_wildcard (v_num v)).
  set (pre' := if w then [] else map (lowf sy) (v_pre v)).
  set (bl' := if w then [] else if showb sb sy then bl else []).
  destruct (cnums (v_num v)) as [|x t] eqn:Ec; [congruence|].
  assert (Wl : wl (x :: t)) by (rewrite <- Ec; apply wl_cut).
  assert (Ni : Forall (fun v => v <> infinity) (x :: t)).
  { eapply Forall_impl; [|exact C1]. intros a Ha. exact (numval_not_inf sy a Ha). }
  assert (Estr : generic_canon sb v = pfx sy ++ r_nums ((tok x, x) :: map tv t) ++ r_pre pre' ++ r_build bl').
  { rewrite canon_shape, Esys, Ec. rewrite (pr_true_toks x t Wl Ni). cbn [r_nums]. rewrite map_fst_tv.
    unfold pre', bl'. fold w. destruct w; [reflexivity|].
    destruct (showb sb sy); [rewrite Eb; reflexivity | reflexivity]. }
  assert (Hok : toks_ok sy [] ((tok x, x) :: map tv t)).
  { change ((tok x, x) :: map tv t) with (map tv (x :: t)).
    apply (toks_ok_canon sy F (x :: t) [] Wl C1); [exact C2 | reflexivity]. }
  assert (Hpre : Forall (fun e => elemb sy e = true) pre').
  { unfold pre'. destruct w; [constructor|]. apply Forall_forall. intros e He. apply in_map_iff in He.
    destruct He as (e0 & <- & He0). rewrite lowf_elemb. rewrite Forall_forall in Fpre. exact (Fpre e0 He0). }
  assert (Hbl : Forall (fun e => elemb sy e = true) bl').
  { unfold bl'. destruct w; [constructor|]. destruct (showb sb sy); [exact Fbl | constructor]. }
  assert (Hgo : pre' <> [] \/ bl' <> [] -> sys_eqb sy SGo && Nat.ltb (S (length (map tv t))) 3 = false).
  { intros H. assert (Ew : w = false) by (unfold pre', bl' in H; destruct w; [destruct H; congruence | reflexivity]).
    pose proof (cnums_length_nowild (v_num v) Ew) as L3. rewrite Ec in L3. cbn [length] in L3.
    rewrite map_length. destruct (Nat.ltb_spec (S (length t)) 3); [lia|]. apply andb_false_r. }
  pose proof (parse_rendered sy (tok x) x (map tv t) pre' bl' F Hok Hpre Hbl Hgo) as PR.
  cbv zeta in PR. rewrite <- Estr in PR. rewrite PR. f_equal.
  rewrite map_snd_tv, C4. unfold rendered_version, reparsed. fold w. fold pre'. rewrite Ec.
  f_equal. unfold bl'. destruct w; [reflexivity|]. destruct (showb sb sy); [symmetry; exact Eb | reflexivity].
Qed.

Lemma finish_cnums sy l : family sy -> cnums (finish_nums sy (cnums l)) = cnums l.
Proof.
  intros F. unfold finish_nums. rewrite (family_not_gems sy F). cbn [orb].
  destruct (sys_eqb sy SNuGet); [rewrite pad3_padz, cnums_padz|]; apply cnums_idem.
Qed.

Lemma finish_wild sy l : family sy -> is_wildcard (finish_nums sy (cnums l)) = is_wildcard l.
Proof.
  intros F. rewrite <- (is_wildcard_cnums (finish_nums sy (cnums l))), (finish_cnums sy l F). apply is_wildcard_cnums.
Qed.

(* clause 3: canonicalising again returns the identical string (for every parsed version) *)
Theorem canon_reparsed_fixed sb sy v : family sy -> v_sys v = sy ->
  generic_canon sb (reparsed sb sy v) = generic_canon sb v.
Proof.
  intros F Esys. rewrite (canon_shape sb (reparsed sb sy v)), (canon_shape sb v).
  unfold reparsed. cbn [v_sys v_num v_pre v_build]. rewrite Esys, (finish_cnums sy _ F), (finish_wild sy _ F).
  destruct (is_wildcard (v_num v)); [reflexivity|].
  rewrite map_map. rewrite (map_ext (fun e => lowf sy (lowf sy e)) (lowf sy) (lowf_idem sy)).
  destruct (showb sb sy); reflexivity.
Qed.

(* clause 2: the re-parsed version compares equal, on the domain *)
Theorem reparsed_equal sb sy v : family sy -> c10_family_dom sy v = true ->
  generic_compare sy v (reparsed sb sy v) = 0.
Proof.
  intros F D. unfold c10_family_dom in D. unfold generic_compare, reparsed. cbn [v_num v_pre].
  assert (En : compare_nums (v_num v) (finish_nums sy (cnums (v_num v))) = 0).
  { unfold finish_nums. rewrite (family_not_gems sy F). cbn [orb].
    destruct (is_wildcard (v_num v)) eqn:W; cbn [negb orb] in D.
    - apply andb_true_iff in D. destruct D as [_ D].
      rewrite (cnums_wild _ W). rewrite (cut_after (v_num v)) at 1.
      destruct (sys_eqb sy SNuGet).
      + rewrite pad3_padz. unfold padz. apply compare_nums_common; [exact D | apply allz_repeat].
      + rewrite <- (app_nil_r (cut_wild (v_num v))) at 2. apply compare_nums_common; [exact D | reflexivity].
    - rewrite (cnums_nowild _ W).
      assert (E : (if sys_eqb sy SNuGet then pad3 (padz (v_num v)) 3 else padz (v_num v)) = padz (v_num v)).
      { destruct (sys_eqb sy SNuGet); [rewrite pad3_padz; apply padz_idem | reflexivity]. }
      rewrite E. unfold padz. rewrite <- (app_nil_r (v_num v)) at 1.
      apply compare_nums_common; [reflexivity | apply allz_repeat]. }
  rewrite En. cbn [Z.eqb negb].
  destruct (is_wildcard (v_num v)) eqn:W; cbn [negb orb] in D.
  - apply andb_true_iff in D. destruct D as [D _]. destruct (v_pre v); [reflexivity | discriminate].
  - destruct (v_pre v) as [|p ps]; [reflexivity|]. cbn [map].
    change (lowf sy p :: map (lowf sy) ps) with (map (lowf sy) (p :: ps)).
    unfold lowf. destruct (sys_eqb sy SNuGet) eqn:EN.
    + assert (ESy : sy = SNuGet) by (destruct sy; try (cbv in EN; discriminate EN); reflexivity). subst sy.
      apply compare_pre_lower.
    + rewrite map_id. apply compare_pre_refl.
Qed.

(* C10 for the family, model level *)
Theorem family_reparse_all sb sy s v : family sy -> parse sy s = Ok v ->
  exists v', parse sy (generic_canon sb v) = Ok v' /\ generic_canon sb v' = generic_canon sb v /\
             (c10_family_dom sy v = true -> generic_compare sy v v' = 0).
Proof.
  intros F P. pose proof (parse_wf sy s v F P) as W.
  exists (reparsed sb sy v). split; [exact (canon_parses sb sy v F W)|].
  split; [apply canon_reparsed_fixed; [exact F | apply W]|].
  intros D. exact (reparsed_equal sb sy v F D).
Qed.

Theorem family_reparse_dom sb sy s v : family sy -> parse sy s = Ok v -> c10_family_dom sy v = true ->
  exists v', parse sy (generic_canon sb v) = Ok v' /\ generic_compare sy v v' = 0 /\
             generic_canon sb v' = generic_canon sb v.
Proof.
  intros F P D. destruct (family_reparse_all sb sy s v F P) as (v' & H1 & H2 & H3).
  exists v'. split; [exact H1|]. split; [exact (H3 D) | exact H2].
Qed.

(* Go and Composer have no wildcards: every parsed version is in the domain *)
Lemma no_wildcard_parsed sy s v : sy = SGo \/ sy = SComposer -> parse sy s = Ok v -> is_wildcard (v_num v) = false.
Proof.
  intros HS P.
  assert (F : family sy) by (destruct HS as [->| ->]; unfold family; auto 10).
  destruct (parse_wf sy s v F P) as (_ & _ & (W1 & _) & _).
  unfold is_wildcard. destruct (existsb (fun n => n =? wildcard) (v_num v)) eqn:E; [|reflexivity].
  apply existsb_exists in E. destruct E as (x & Hx & Ex). apply Z.eqb_eq in Ex. subst x.
  rewrite Forall_forall in W1. destruct (W1 _ Hx) as [(_ & Hw)|R].
  - destruct HS as [->| ->]; discriminate Hw.
  - unfold wildcard in R. lia.
Qed.

Theorem family_reparse_go_composer sb sy s v : sy = SGo \/ sy = SComposer -> parse sy s = Ok v ->
  exists v', parse sy (generic_canon sb v) = Ok v' /\ generic_compare sy v v' = 0 /\
             generic_canon sb v' = generic_canon sb v.
Proof.
  intros HS P.
  assert (F : family sy) by (destruct HS as [->| ->]; unfold family; auto 10).
  apply (family_reparse_dom sb sy s v F P). unfold c10_family_dom.
  rewrite (no_wildcard_parsed sy s v HS P). reflexivity.
Qed.

(* the domain is exact: outside it the re-parsed version does not compare equal *)
Lemma compare_nums_not_allz a : forall z, allz a = false -> allz z = true -> compare_nums a z <> 0.
Proof.
  induction a as [|x a IH]; intros z Ha Hz; [discriminate|].
  cbn [allz forallb] in Ha.
  destruct z as [|y z].
  - cbn [compare_nums cmp_zero_l]. destruct (Z.eqb_spec x 0) as [->|Hx].
    + cbn [andb] in Ha. change (sgnZ 0 0 =? 0) with true. cbv iota.
      specialize (IH [] Ha eq_refl). destruct a; [discriminate|exact IH].
    + assert (S0 : sgnZ x 0 <> 0) by (unfold sgnZ; destruct (Z.compare_spec x 0); lia).
      destruct (Z.eqb_spec (sgnZ x 0) 0); [contradiction | exact S0].
  - cbn [allz forallb] in Hz. apply andb_true_iff in Hz. destruct Hz as [Hy Hz]. apply Z.eqb_eq in Hy. subst y.
    cbn [compare_nums]. destruct (Z.eqb_spec x 0) as [->|Hx].
    + cbn [andb] in Ha. change (sgnZ 0 0 =? 0) with true. cbv iota. exact (IH z Ha Hz).
    + assert (S0 : sgnZ x 0 <> 0) by (unfold sgnZ; destruct (Z.compare_spec x 0); lia).
      destruct (Z.eqb_spec (sgnZ x 0) 0); [contradiction | exact S0].
Qed.

Lemma compare_nums_prefix a : forall b c, compare_nums (a ++ b) (a ++ c) = compare_nums b c.
Proof. induction a as [|x a IH]; intros b c; [reflexivity|]. cbn [app compare_nums]. rewrite sgnZ_refl. cbn [Z.eqb]. apply IH. Qed.

Theorem reparsed_unequal sb sy v : family sy -> c10_family_dom sy v = false ->
  generic_compare sy v (reparsed sb sy v) <> 0.
Proof.
  intros F D. unfold c10_family_dom in D. apply orb_false_iff in D. destruct D as [W D].
  apply negb_false_iff in W. unfold generic_compare, reparsed. cbn [v_num v_pre]. rewrite W.
  assert (Ef : exists z, allz z = true /\ finish_nums sy (cnums (v_num v)) = cut_wild (v_num v) ++ z).
  { unfold finish_nums. rewrite (family_not_gems sy F), (cnums_wild _ W). cbn [orb].
    destruct (sys_eqb sy SNuGet).
    - rewrite pad3_padz. unfold padz. eexists. split; [apply allz_repeat | reflexivity].
    - exists []. split; [reflexivity | rewrite app_nil_r; reflexivity]. }
  destruct Ef as (z & Hz & Ef). rewrite Ef.
  assert (Ec : compare_nums (v_num v) (cut_wild (v_num v) ++ z) = compare_nums (after_wild (v_num v)) z).
  { rewrite (cut_after (v_num v)) at 1. apply compare_nums_prefix. }
  rewrite Ec.
  destruct (allz (after_wild (v_num v))) eqn:A.
  - rewrite (compare_nums_allz _ _ A Hz). cbn [Z.eqb negb]. rewrite andb_true_r in D.
    destruct (v_pre v); [discriminate D | discriminate].
  - pose proof (compare_nums_not_allz _ z A Hz) as N.
    destruct (Z.eqb_spec (compare_nums (after_wild (v_num v)) z) 0); [contradiction|]. cbn [negb]. exact N.
Qed.

Theorem family_reparse_exact sb sy s v : family sy -> parse sy s = Ok v ->
  ((exists v', parse sy (generic_canon sb v) = Ok v' /\ generic_compare sy v v' = 0) <-> c10_family_dom sy v = true).
Proof.
  intros F P. pose proof (parse_wf sy s v F P) as W. pose proof (canon_parses sb sy v F W) as R. split.
  - intros (v' & P' & C). rewrite R in P'. inversion P'; subst v'.
    destruct (c10_family_dom sy v) eqn:D; [reflexivity|]. exfalso. exact (reparsed_unequal sb sy v F D C).
  - intros D. exists (reparsed sb sy v). split; [exact R | exact (reparsed_equal sb sy v F D)].
Qed.
