(* Model of semver.Version (util/semver/version.go): the parsed value, the generic
   (SemVer-family) comparison and canonical printer.  Definitions only.
   The three extension comparators live in Maven.v / Pep440.v / Gem.v; the dispatcher
   that mirrors Go's compare() is in Compare.v. *)
From DepsDev Require Import Lib.Base.
Local Open Scope Z_scope.

Inductive system := SDefault | SCargo | SGo | SMaven | SNPM | SNuGet | SPyPI | SRubyGems | SComposer.

Definition sys_index (s : system) : Z :=
  match s with
  | SDefault => 0 | SCargo => 1 | SGo => 2 | SMaven => 3 | SNPM => 4
  | SNuGet => 5 | SPyPI => 6 | SRubyGems => 7 | SComposer => 8
  end.

Definition sys_of_index (i : Z) : option system :=
  match i with
  | 0 => Some SDefault | 1 => Some SCargo | 2 => Some SGo | 3 => Some SMaven | 4 => Some SNPM
  | 5 => Some SNuGet | 6 => Some SPyPI | 7 => Some SRubyGems | 8 => Some SComposer
  | _ => None
  end.

Definition sys_eqb (a b : system) : bool := Z.eqb (sys_index a) (sys_index b).

Record mvn_elem := { me_sep : N; me_str : bytes; me_int : Z }.
Record gem_elem := { ge_str : bytes; ge_int : Z }.
Record pep440 := {
  p_epoch : Z; p_pre : bytes; p_prenum : Z; p_post : bool; p_postnum : Z;
  p_dev : bool; p_devnum : Z; p_local : bytes }.

Inductive extension :=
| NoExt
| MavenExt (l : list mvn_elem)
| Pep440Ext (e : option pep440)
| GemExt (l : list gem_elem).

Record version := {
  v_sys : system;
  v_user_num_count : Z;
  v_is_prerelease : bool;
  v_str : bytes;
  v_num : list Z;            (* wildcard = -1, infinity = 2^63-1 *)
  v_pre : list bytes;
  v_build : bytes;           (* includes the '+' *)
  v_ext : extension }.

Definition wildcard : Z := -1.
Definition infinity : Z := 9223372036854775807.

(* sgn64 *)
Definition sgnZ (a b : Z) : Z := match Z.compare a b with Lt => -1 | Eq => 0 | Gt => 1 end.

(* getNum: missing components read as 0 *)
Fixpoint get_num (l : list Z) (i : nat) : Z :=
  match l, i with
  | [], _ => 0
  | x :: _, O => x
  | _ :: t, S i' => get_num t i'
  end.

(* the loop "for i < max(len) : sgnv(getNum i)" *)
Fixpoint cmp_zero_l (a : list Z) : Z :=
  match a with
  | [] => 0
  | x :: a' => if sgnZ x 0 =? 0 then cmp_zero_l a' else sgnZ x 0
  end.
Fixpoint cmp_zero_r (b : list Z) : Z :=
  match b with
  | [] => 0
  | y :: b' => if sgnZ 0 y =? 0 then cmp_zero_r b' else sgnZ 0 y
  end.
Fixpoint compare_nums (a b : list Z) : Z :=
  match a, b with
  | [], [] => 0
  | _ :: _, [] => cmp_zero_l a
  | [], _ :: _ => cmp_zero_r b
  | x :: a', y :: b' => if sgnZ x y =? 0 then compare_nums a' b' else sgnZ x y
  end.

(* strconv.ParseInt(s, 10, bits): optional sign, digits only, range check *)
Fixpoint digits_val (s : bytes) (acc : Z) : option Z :=
  match s with
  | [] => Some acc
  | c :: t => if is_digit c then digits_val t (10 * acc + Z.of_N (c - 48)%N) else None
  end.

Definition parse_int (s : bytes) (bits : Z) : option Z :=
  let '(neg, body) :=
    match s with
    | 43%N :: t => (false, t)
    | 45%N :: t => (true, t)
    | _ => (false, s)
    end in
  match body with
  | [] => None
  | _ =>
      match digits_val body 0 with
      | None => None
      | Some n =>
          let v := if neg then - n else n in
          if (v <? - 2 ^ (bits - 1)) || (2 ^ (bits - 1) - 1 <? v) then None else Some v
      end
  end.

(* isNumeric(sys, s) *)
Definition is_numeric (sys : system) (s : bytes) : option Z :=
  let leading_zero := match s with 48%N :: _ :: _ => true | _ => false end in
  let signed := match s with 45%N :: _ => true | 43%N :: _ => true | _ => false end in
  if leading_zero && negb (sys_eqb sys SNPM) then None
  else if signed then None
  else parse_int s (if sys_eqb sys SNuGet then 32 else 64).

(* compareNugetPrerelease: case-insensitive (ASCII) bytewise; a proper prefix sorts first *)
Fixpoint nuget_compare (a b : bytes) : Z :=
  match a, b with
  | [], [] => 0
  | [], _ :: _ => -1
  | _ :: _, [] => 1
  | x :: a', y :: b' =>
      let d := sgnZ (Z.of_N (ascii_lower x)) (Z.of_N (ascii_lower y)) in
      if d =? 0 then nuget_compare a' b' else d
  end.

Definition compare_elem (sys : system) (s1 s2 : bytes) : Z :=
  match is_numeric sys s1, is_numeric sys s2 with
  | Some n1, Some n2 => sgnZ n1 n2
  | Some _, None => -1
  | None, Some _ => 1
  | None, None => if sys_eqb sys SNuGet then nuget_compare s1 s2 else bytes_compare s1 s2
  end.

(* comparePrerelease *)
Fixpoint compare_pre (sys : system) (p1 p2 : list bytes) : Z :=
  match p1, p2 with
  | [], [] => 0
  | [], _ :: _ => -1
  | _ :: _, [] => 1
  | x :: t1, y :: t2 =>
      let c := compare_elem sys x y in
      if c =? 0 then compare_pre sys t1 t2 else c
  end.

(* compare() for two versions of the same system without extension *)
Definition generic_compare (sys : system) (a b : version) : Z :=
  let c := compare_nums (v_num a) (v_num b) in
  if negb (c =? 0) then c
  else match v_pre a, v_pre b with
       | [], [] => 0
       | [], _ => 1
       | _, [] => -1
       | pa, pb => compare_pre sys pa pb
       end.

(* ---------- Canon for versions without extension ---------- *)
Definition s_inf : bytes := [226; 136; 158]%N.   (* the infinity sign in UTF-8 *)

Definition value_string (v : Z) : bytes :=
  if v =? infinity then s_inf else if v =? wildcard then [42%N] else Z_to_dec v.

Definition at_least3 (l : list Z) : nat := Nat.max 3 (length l).

(* printNumsN: stops after the first wildcard *)
Fixpoint print_nums_from (l : list Z) (i n : nat) : bytes :=
  match n with
  | O => []
  | S n' =>
      let v := get_num l i in
      (match i with O => [] | _ => [46%N] end) ++
      (if v =? wildcard then [42%N] else value_string v ++ print_nums_from l (S i) n')
  end.
Definition print_nums (l : list Z) : bytes := print_nums_from l 0 (at_least3 l).

Definition is_wildcard (l : list Z) : bool := existsb (fun n => n =? wildcard) l.

Definition generic_canon (show_build : bool) (v : version) : bytes :=
  let show_build := if sys_eqb (v_sys v) SNuGet then false else show_build in
  let head := (if sys_eqb (v_sys v) SGo then [118%N] else []) ++ print_nums (v_num v) in
  if is_wildcard (v_num v) then head
  else
    let pre :=
      match v_pre v with
      | [] => []
      | p :: ps =>
          let f := if sys_eqb (v_sys v) SNuGet then to_lower else (fun x => x) in
          45%N :: f p ++ flat_map (fun q => 46%N :: f q) ps
      end in
    head ++ pre ++ (if show_build then v_build v else []).
