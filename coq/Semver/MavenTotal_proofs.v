(* C04 for the Maven parser model (MavenParse.v): mavenExtension.init is total -- neither of the
   two index panics of the first loop (str[0] of a separator element, elements[len-1] for the
   a/b/m shortcut), nor an index panic of the trimming loops, nor a fuel exhaustion of the
   model can occur, for ALL byte strings and both variants of the zero test. *)
From Coq Require Import Lia.
From DepsDev Require Import Lib.Base Lib.Order Semver.Version Semver.Maven Semver.MavenParse Semver.MavenDomain
  Semver.Compare Semver.Maven_proofs Semver.MavenParse_proofs.
Local Open Scope Z_scope.

Definition good {A} (r : res A) : Prop := match r with Panic _ => False | OutOfFuel => False | _ => True end.

Lemma good_bind {A B} (r : res A) (f : A -> res B) : good r -> (forall a, r = Ok a -> good (f a)) -> good (bind r f).
Proof. destruct r; simpl; auto. Qed.

(* ------------------------------------------------------------------ first loop *)
Lemma span_cat_app prev s : forall a b, span_cat prev s = (a, b) -> s = a ++ b.
Proof.
  induction s as [|c t IH]; intros a b H; simpl in H.
  - inversion H; auto.
  - destruct ((bcat c =? prev) && negb (bcat c =? cat_separator)).
    + destruct (span_cat prev t) as [a0 b0] eqn:E. inversion H; subst. simpl. f_equal. apply IH; auto.
    + inversion H; auto.
Qed.

Lemma next_elem_app s : s = fst (next_maven_elem s) ++ snd (next_maven_elem s).
Proof.
  destruct s as [|c [|d t]]; try reflexivity.
  unfold next_maven_elem. destruct (bcat c =? cat_separator).
  - destruct (span_cat (bcat d) (d :: t)) as [a b] eqn:E. simpl. f_equal. apply (span_cat_app _ _ _ _ E).
  - destruct (span_cat (bcat c) (c :: d :: t)) as [a b] eqn:E. simpl. apply (span_cat_app _ _ _ _ E).
Qed.

Lemma next_elem_shorter s str rest : s <> [] -> next_maven_elem s = (str, rest) -> (length rest < length s)%nat.
Proof.
  intros N E. pose proof (next_elem_app s) as A. pose proof (next_elem_nonempty s N) as NE.
  rewrite E in A, NE. simpl in A, NE. rewrite A, app_length. destruct str; [congruence|]. simpl. lia.
Qed.

Local Arguments next_maven_elem : simpl never.
Local Arguments maven_category : simpl never.

Lemma scan_good fuel : forall s first pc racc,
  (length s < fuel)%nat -> (first = false -> racc <> []) -> good (mvn_scan fuel s first pc racc).
Proof.
  induction fuel as [|f IH]; intros s first pc racc L R; [exfalso; lia|].
  destruct s as [|c0 t0]; [exact I|].
  simpl mvn_scan.
  destruct (next_maven_elem (c0 :: t0)) as [str rest] eqn:NE.
  pose proof (next_elem_shorter (c0 :: t0) str rest ltac:(discriminate) NE) as SH.
  pose proof (next_elem_nonempty (c0 :: t0) ltac:(discriminate)) as NN. rewrite NE in NN. simpl in NN.
  assert (LF : (length rest < f)%nat) by (simpl in L, SH; lia).
  assert (NR : forall (e : mvn_elem) (r : list mvn_elem), false = false -> e :: r <> []) by (intros; discriminate).
  destruct (maven_category str =? cat_unknown); [exact I|].
  destruct (maven_category str =? cat_separator).
  - destruct str as [|c str1]; [congruence|]. apply IH; auto.
  - destruct first; [apply IH; auto|].
    destruct (maven_category str =? cat_numeric); [|apply IH; auto].
    destruct (pc =? cat_numeric); [apply IH; auto|].
    destruct (pc =? cat_qualifier); [|apply IH; auto].
    destruct racc as [|p r]; [exfalso; apply (R eq_refl); reflexivity|]. apply IH; auto.
Qed.

(* ------------------------------------------------------------------ trimming loops *)
Lemma idx_ok {A} (l : list A) : forall i, (i < length l)%nat -> exists x, idx l i = Ok x.
Proof.
  induction l as [|x l IH]; intros i H; simpl in H; [lia|].
  destruct i; simpl; eauto. apply IH. lia.
Qed.

Lemma remove_at_length {A} (l : list A) i : (i < length l)%nat -> length (remove_at l i) = (length l - 1)%nat.
Proof.
  intros H. unfold remove_at. rewrite app_length, firstn_length, skipn_length. lia.
Qed.

Lemma trim_inner_spec z fuel : forall l i, (i < fuel)%nat -> (i < length l)%nat ->
  exists l' i', trim_inner_with z fuel l i = Ok (l', i') /\
                (length l' + i = length l + i')%nat /\ (i' < length l')%nat /\ (i' <= i)%nat.
Proof.
  induction fuel as [|f IH]; intros l i F L; [exfalso; lia|].
  simpl. destruct i as [|i'].
  - exists l, 0%nat. repeat split; auto; lia.
  - destruct (idx_ok l (S i') L) as [e E]. rewrite E. simpl.
    destruct (is_empty_elem_with z (me_str e)).
    + assert (L' : (i' < length (remove_at l (S i')))%nat) by (rewrite remove_at_length; lia).
      destruct (IH (remove_at l (S i')) i' ltac:(lia) L') as [l' [i'' [H1 [H2 [H3 H4]]]]].
      exists l', i''. rewrite remove_at_length in H2 by lia. repeat split; auto; lia.
    + exists l, (S i'). repeat split; auto; lia.
Qed.

Lemma trim_outer_good z fuel : forall l i,
  (2 * length l + 2 <= fuel + i)%nat -> (i <= length l + 1)%nat -> good (trim_outer_with z fuel l i).
Proof.
  induction fuel as [|f IH]; intros l i F B; [exfalso; lia|].
  simpl. destruct (Nat.ltb_spec i (length l)) as [L|L]; [|exact I].
  assert (INNER : good (bind (trim_inner_with z (S (length l)) l i)
                          (fun r => trim_outer_with z f (fst r) (S (snd r))))).
  { destruct (trim_inner_spec z (S (length l)) l i ltac:(lia) L) as [l' [i' [H1 [H2 [H3 H4]]]]].
    rewrite H1. simpl. apply IH; lia. }
  destruct (Nat.ltb_spec i (length l - 1)) as [L2|L2]; [|exact INNER].
  destruct (idx_ok l (S i) ltac:(lia)) as [e E]. rewrite E. simpl.
  destruct (negb (N.eqb (me_sep e) 45)); [apply IH; lia | exact INNER].
Qed.

Lemma trim_good z l : good (mvn_trim_with z l).
Proof. unfold mvn_trim_with. apply trim_outer_good; lia. Qed.

Lemma ints_good l : good (mvn_ints l).
Proof.
  induction l as [|e t IH]; simpl; auto.
  destruct (maven_category (me_str e) =? cat_numeric).
  - destruct (bytes_eqb (me_str e) s_inf).
    + destruct (mvn_ints t); simpl; auto.
    + destruct (parse_num (me_str e)); simpl; auto. destruct (mvn_ints t); simpl; auto.
  - destruct (mvn_ints t); simpl; auto.
Qed.

(* ------------------------------------------------------------------ the parser *)
(* mavenExtension.init as modelled, on ALL byte strings (the model is a model of the Go code
   only inside mvn_fragment, see Properties/C04_mvngem.v) *)
Theorem mvn_init_total z s : good (mvn_init_with z s).
Proof.
  unfold mvn_init_with. apply good_bind.
  - apply scan_good; [lia | discriminate].
  - intros l _. apply good_bind; [apply trim_good | intros l' _; apply ints_good].
Qed.

Theorem mvn_parse_total z s r : mvn_parse_with z s = Some r -> good r.
Proof.
  unfold mvn_parse_with. destruct (mvn_fragment s); [|discriminate]. intros H. inversion H; subst.
  apply good_bind; [apply mvn_init_total | intros a _; exact I].
Qed.

(* compare of two parser outputs, both variants *)
Theorem mvn_parse_okcat_with z s v : mvn_parse_with z s = Some (Ok v) -> Forall okcat (mvn_elems v).
Proof.
  unfold mvn_parse_with. destruct (mvn_fragment s); [|discriminate]. intros H. inversion H as [H'].
  unfold mvn_init_with in H'.
  destruct (mvn_scan (S (length (to_lower s))) (to_lower s) true cat_unknown []) as [l| | |] eqn:SC; simpl in H'; try discriminate.
  destruct (mvn_trim_with z l) as [l'| | |] eqn:TR; simpl in H'; try discriminate.
  destruct (mvn_ints l') as [r| | |] eqn:IN; simpl in H'; try discriminate.
  inversion H'; subst. unfold mvn_elems. simpl.
  eapply ints_okcat; [|exact IN].
  eapply trim_outer_Forall; [|exact TR].
  eapply scan_okcat; [|exact SC]. constructor.
Qed.

Theorem maven_compare_total_with z sa sb a b :
  mvn_parse_with z sa = Some (Ok a) -> mvn_parse_with z sb = Some (Ok b) -> exists r, compare a b = Ok r.
Proof.
  intros Pa Pb. pose proof (mvn_parse_okcat_with z sa a Pa) as Oa. pose proof (mvn_parse_okcat_with z sb b Pb) as Ob.
  unfold mvn_parse_with in Pa, Pb.
  destruct (mvn_fragment sa); [|discriminate]. destruct (mvn_fragment sb); [|discriminate].
  destruct (mvn_init_with z sa) as [ra| | |]; simpl in Pa; try discriminate.
  destruct (mvn_init_with z sb) as [rb| | |]; simpl in Pb; try discriminate.
  inversion Pa; inversion Pb; subst. unfold compare, mvn_elems in *. simpl in *.
  apply maven_compare_no_panic; auto.
Qed.
