(* Acceptance clause of C02 for PyPI: semver.PyPI.Parse accepts every version written in
   the normalised form of the reference (str(packaging.version.Version)), provided the
   epoch is at most 255 and the release numbers are below 2^63-1. *)
From Coq Require Import List ZArith NArith Lia Bool.
From DepsDev Require Import Lib.Base Lib.Order Semver.Version Semver.Pep440 Semver.Pep440Parse
  Spec.Pep440Spec Semver.Pep440Abs Semver.Pep440_proofs Semver.Pep440Parse_proofs Semver.Pep440C02_proofs
  Semver.Pep440Scan_proofs Semver.Pep440Print_proofs Gen.SemverTables.
Import ListNotations.
Local Open Scope Z_scope.

Local Arguments is_digit : simpl never.

(* ---------- possibleVersionString ---------- *)
Lemma digit_scan_step c t i n : is_digit c = true ->
  possible_scan (c :: t) i (S n) = possible_scan t (S i) n.
Proof.
  intros Dc. cbn [possible_scan].
  assert (E : N.eqb c 46 || N.eqb c 45 || N.eqb c 43 = false).
  { unfold is_digit in Dc. apply andb_true_iff in Dc. destruct Dc as [H1 H2]. apply N.leb_le in H1, H2.
    destruct (N.eqb_spec c 46), (N.eqb_spec c 45), (N.eqb_spec c 43); auto; lia. }
  rewrite E, Dc. reflexivity.
Qed.

Lemma possible_scan_0 s i : possible_scan s i 0 = true.
Proof. destruct s; reflexivity. Qed.

Lemma bang_scan_step t i n : possible_scan (33%N :: t) i (S n) = possible_scan t (S i) n.
Proof. reflexivity. Qed.

(* the letters that may follow the release number in a normalised form are in lettersInPyPI *)
Lemma letter_scan_step c t i n : (c = 97 \/ c = 98 \/ c = 114 \/ c = 99)%N ->
  possible_scan (c :: t) (S i) (S n) = possible_scan t (S (S i)) n.
Proof. intros [->|[->|[->| ->]]]; reflexivity. Qed.

(* digits, bang, digits: three bytes are enough *)
Lemma possible_digits_bang_any ds ds2 r : ds <> [] -> forallb is_digit ds = true ->
  ds2 <> [] -> forallb is_digit ds2 = true ->
  possible_pypi (ds ++ 33%N :: ds2 ++ r) = true.
Proof.
  intros Ne D Ne2 D2. destruct ds as [|d0 ds']; [congruence|].
  assert (D0 : is_digit d0 = true) by (cbn [forallb] in D; apply andb_true_iff in D; tauto).
  rewrite (possible_pypi_digits d0 ds' _ D0).
  destruct ds2 as [|e0 ds2']; [congruence|].
  assert (E0 : is_digit e0 = true) by (cbn [forallb] in D2; apply andb_true_iff in D2; tauto).
  cbn [app]. rewrite (digit_scan_step d0 _ 0 2 D0).
  destruct ds' as [|d1 ds''].
  - cbn [app]. rewrite bang_scan_step.
    rewrite (digit_scan_step e0 _ 2 0 E0). apply possible_scan_0.
  - assert (D1 : is_digit d1 = true) by (cbn [forallb] in D; apply andb_true_iff in D; destruct D as [_ D]; apply andb_true_iff in D; tauto).
    cbn [app]. rewrite (digit_scan_step d1 _ 1 1 D1).
    destruct ds'' as [|d2 ds'''].
    + cbn [app]. rewrite bang_scan_step. apply possible_scan_0.
    + assert (D2' : is_digit d2 = true).
      { cbn [forallb] in D. apply andb_true_iff in D. destruct D as [_ D]. apply andb_true_iff in D. destruct D as [_ D].
        apply andb_true_iff in D. tauto. }
      cbn [app]. rewrite (digit_scan_step d2 _ 2 0 D2'). apply possible_scan_0.
Qed.

(* one release number followed directly by the attachments *)
Lemma possible_digits_tail ds pre post dev loc : ds <> [] -> forallb is_digit ds = true -> pre_ok pre ->
  (match post with Some n => 0 <= n | None => True end) ->
  (match dev with Some n => 0 <= n | None => True end) ->
  possible_pypi (ds ++ r_tail pre post dev loc) = true.
Proof.
  intros Ne D Hp Hq Hd. destruct ds as [|d0 ds']; [congruence|].
  assert (D0 : is_digit d0 = true) by (cbn [forallb] in D; apply andb_true_iff in D; tauto).
  rewrite (possible_pypi_digits d0 ds' _ D0). cbn [app]. rewrite (digit_scan_step d0 _ 0 2 D0).
  assert (Tail : forall i n, (1 <= i)%nat -> (n <= 2)%nat -> possible_scan (r_tail pre post dev loc) i n = true).
  { intros i n Hi Hn. destruct n as [|n]; [apply possible_scan_0|].
    destruct i as [|i]; [lia|].
    unfold r_tail. destruct pre as [[w m]|].
    - destruct Hp as [Hw Hm]. destruct (dec_head m Hm) as (e0 & es & E & E0). unfold r_pre. rewrite E.
      destruct Hw as [->|[->| ->]]; cbn [app].
      + rewrite (letter_scan_step 97 _ i n (or_introl eq_refl)).
        destruct n as [|n]; [apply possible_scan_0|]. rewrite (digit_scan_step e0 _ _ n E0).
        destruct n; [apply possible_scan_0 | lia].
      + rewrite (letter_scan_step 98 _ i n (or_intror (or_introl eq_refl))).
        destruct n as [|n]; [apply possible_scan_0|]. rewrite (digit_scan_step e0 _ _ n E0).
        destruct n; [apply possible_scan_0 | lia].
      + rewrite (letter_scan_step 114 _ i n (or_intror (or_intror (or_introl eq_refl)))).
        destruct n as [|n]; [apply possible_scan_0|].
        rewrite (letter_scan_step 99 _ (S i) n (or_intror (or_intror (or_intror eq_refl)))).
        destruct n; [apply possible_scan_0 | lia].
    - cbn [r_pre]. destruct post as [q|]; [reflexivity|].
      cbn [r_post]. destruct dev as [q|]; [reflexivity|].
      cbn [r_dev]. destruct loc; reflexivity. }
  destruct ds' as [|d1 ds''].
  - cbn [app]. apply Tail; lia.
  - assert (D1 : is_digit d1 = true) by (cbn [forallb] in D; apply andb_true_iff in D; destruct D as [_ D]; apply andb_true_iff in D; tauto).
    cbn [app]. rewrite (digit_scan_step d1 _ 1 1 D1).
    destruct ds'' as [|d2 ds'''].
    + cbn [app]. apply Tail; lia.
    + assert (D2' : is_digit d2 = true).
      { cbn [forallb] in D. apply andb_true_iff in D. destruct D as [_ D]. apply andb_true_iff in D. destruct D as [_ D].
        apply andb_true_iff in D. tauto. }
      cbn [app]. rewrite (digit_scan_step d2 _ 2 0 D2'). apply possible_scan_0.
Qed.

Lemma possible_render ep n1 rest pre post dev loc :
  0 <= ep <= 255 -> 0 <= n1 < infinity -> pre_ok pre ->
  (match post with Some n => 0 <= n | None => True end) ->
  (match dev with Some n => 0 <= n | None => True end) ->
  possible_pypi (render ep (pn (n1 :: rest)) pre post dev loc) = true.
Proof.
  intros Hep Hn1 Hp Hq Hd.
  destruct (Z_to_dec_spec n1 ltac:(lia)) as (D1 & Ne1 & _).
  assert (Vs1 : value_string n1 = Z_to_dec n1).
  { destruct (value_string_cases n1 ltac:(right; right; auto)) as [[E _]|[[E _]|[_ E]]]; auto;
      unfold wildcard, infinity in *; lia. }
  unfold render, r_epoch. destruct (Z.eqb_spec ep 0).
  - destruct rest as [|y l].
    + rewrite pn_one, Vs1. apply possible_digits_tail; auto.
    + rewrite pn_cons2, Vs1. rewrite <- app_assoc. cbn [app]. apply possible_digits_dot; auto.
  - destruct (Z_to_dec_spec ep ltac:(lia)) as (De & Nee & _).
    destruct rest as [|y l].
    + rewrite pn_one, Vs1. apply possible_digits_bang_any; auto.
    + rewrite pn_cons2, Vs1. rewrite <- app_assoc. apply possible_digits_bang_any; auto.
Qed.

(* Parse accepts a rendered version *)
Theorem parse_render ep n1 rest pre post dev loc :
  0 <= ep <= 255 -> 0 <= n1 < infinity -> Forall valid_num (n1 :: rest) ->
  pre_ok pre -> (match post with Some n => 0 <= n | None => True end) ->
  (match dev with Some n => 0 <= n | None => True end) -> loc_ok loc ->
  exists v, parse_pypi (render ep (pn (n1 :: rest)) pre post dev loc) = Ok v.
Proof.
  intros Hep Hn1 V Hp Hq Hd Hl. unfold parse_pypi.
  rewrite (possible_render ep n1 rest pre post dev loc Hep Hn1 Hp Hq Hd). cbn [negb].
  rewrite (pep_init_render_gen ep n1 rest pre post dev loc Hep Hn1 V Hp Hq Hd Hl). cbn [bind].
  eexists; reflexivity.
Qed.

(* ---------- the normal form is a rendering ---------- *)
Definition n_pre (p : pv) : option (bytes * Z) :=
  match s_pre p with Some (k, n) => Some (pre_letter k, n) | None => None end.
Definition n_loc (p : pv) : option bytes :=
  match s_local p with Some l => Some (join_dots (map seg_text l)) | None => None end.

Lemma normal_render p : Forall (fun n => 0 <= n < infinity) (s_release p) ->
  spec_normal p = render (s_epoch p) (pn (s_release p)) (n_pre p) (s_post p) (s_dev p) (n_loc p).
Proof.
  intros R.
  assert (E : map Z_to_dec (s_release p) = map value_string (s_release p)).
  { apply map_ext_in. intros n Hn. rewrite Forall_forall in R. specialize (R n Hn).
    destruct (value_string_cases n ltac:(right; right; auto)) as [[E _]|[[E _]|[_ E]]]; auto;
      unfold wildcard, infinity in *; lia. }
  unfold spec_normal, render, r_epoch, r_tail, r_pre, r_post, r_dev, r_local, n_pre, n_loc, pn, s_dotpost, s_dotdev.
  rewrite E.
  destruct (s_epoch p =? 0), (s_pre p) as [[k n]|], (s_post p), (s_dev p), (s_local p);
    repeat (rewrite <- app_assoc || rewrite app_nil_r || cbn [app]); reflexivity.
Qed.

(* ---------- the normalised local label ---------- *)
Definition alnum_ne (t : bytes) : Prop := t <> [] /\ forallb is_alnum t = true.

Lemma ascii_lower_alnum c : is_alnum c = true -> is_alnum (ascii_lower c) = true.
Proof.
  intros Hc. unfold ascii_lower. destruct (N.leb 65 c && N.leb c 90) eqn:U; [|exact Hc].
  apply andb_true_iff in U. destruct U as [U1 U2]. apply N.leb_le in U1, U2.
  unfold is_alnum, is_alpha.
  replace (N.leb 97 (c + 32)) with true by (symmetry; apply N.leb_le; lia).
  replace (N.leb (c + 32) 122) with true by (symmetry; apply N.leb_le; lia).
  cbn [andb orb]. apply orb_true_r.
Qed.

Lemma to_lower_alnum t : forallb is_alnum t = true -> forallb is_alnum (to_lower t) = true.
Proof.
  unfold to_lower. induction t as [|c t IH]; cbn [map forallb]; auto. intros H. apply andb_true_iff in H.
  destruct H as [Hc Ht]. rewrite (IH Ht), (ascii_lower_alnum c Hc). reflexivity.
Qed.

Lemma digits_alnum d : forallb is_digit d = true -> forallb is_alnum d = true.
Proof.
  induction d as [|c d IH]; cbn [forallb]; auto. intros H. apply andb_true_iff in H. destruct H as [Hc Hd].
  rewrite (IH Hd). unfold is_alnum. rewrite Hc. reflexivity.
Qed.

Lemma seg_text_alnum t : seg_ok t = true -> alnum_ne (seg_text t).
Proof.
  unfold seg_ok. intros H. apply andb_true_iff in H. destruct H as [Hne Hal].
  unfold seg_text, norm_seg. destruct (all_digits_b t) eqn:D.
  - destruct (Z_to_dec_spec (sp_int t) (sp_int_nonneg t)) as (Dg & Ne & _). split; auto. apply digits_alnum; auto.
  - split.
    + destruct t; [discriminate|]. discriminate.
    + apply to_lower_alnum. exact Hal.
Qed.

Lemma last_app_ne {A} (a b : list A) d : b <> [] -> last (a ++ b) d = last b d.
Proof.
  intros Hb. induction a as [|x a IH]; auto.
  change ((x :: a) ++ b) with (x :: (a ++ b)). rewrite <- IH.
  destruct (a ++ b) eqn:E; [apply app_eq_nil in E; destruct E; congruence | reflexivity].
Qed.

Lemma alnum_ok_chars t : forallb is_alnum t = true -> forallb (fun c => is_alnum c || N.eqb c 46) t = true.
Proof.
  induction t as [|c t IH]; cbn [forallb]; auto. intros H. apply andb_true_iff in H. destruct H as [Hc Ht].
  rewrite Hc, (IH Ht). reflexivity.
Qed.

Lemma join_dots_local_ok l : l <> [] -> Forall alnum_ne l -> local_ok (join_dots l).
Proof.
  induction l as [|x t IH]; intros Hne Hl; [congruence|].
  inversion Hl as [|? ? [Hx Ax] Ht]; subst.
  destruct t as [|y t'].
  - rewrite join_dots_one. destruct x as [|c x']; [congruence|].
    repeat split; try discriminate.
    + apply alnum_ok_chars; auto.
    + cbn [hd]. cbn [forallb] in Ax. apply andb_true_iff in Ax. tauto.
    + apply last_alnum. exact Ax.
  - rewrite join_dots_cons2. destruct (IH ltac:(discriminate) Ht) as (N1 & F1 & H1 & L1).
    destruct x as [|c x']; [congruence|]. repeat split.
    + discriminate.
    + rewrite forallb_app. rewrite (alnum_ok_chars _ Ax). cbn [forallb]. rewrite F1.
      replace (is_alnum 46 || N.eqb 46 46) with true by reflexivity. reflexivity.
    + cbn [app hd]. cbn [forallb] in Ax. apply andb_true_iff in Ax. tauto.
    + change ((c :: x') ++ 46%N :: join_dots (y :: t')) with ((c :: x') ++ [46%N] ++ join_dots (y :: t')).
      rewrite app_assoc. rewrite last_app_ne by exact N1. exact L1.
Qed.

(* ---------- acceptance of normalised forms ---------- *)
Theorem c02_accepts p : pv_wf p -> s_release p <> [] -> s_epoch p <= 255 ->
  Forall (fun n => n < infinity) (s_release p) ->
  exists v, parse_pypi (spec_normal p) = Ok v.
Proof.
  intros W Hne Hep Hr.
  assert (R : Forall (fun n => 0 <= n < infinity) (s_release p)).
  { pose proof (wf_rel p W) as Nn. unfold nonneg in Nn. rewrite Forall_forall in *. intros n Hn. split; auto. }
  rewrite (normal_render p R).
  destruct (s_release p) as [|n1 rest] eqn:Er; [congruence|].
  apply parse_render.
  - split; [apply (wf_epoch p W) | exact Hep].
  - inversion R; auto.
  - eapply Forall_impl; [|exact R]. intros n Hn. right. right. exact Hn.
  - unfold n_pre, pre_ok. destruct (s_pre p) as [[k n]|] eqn:Ep; auto.
    destruct (wf_pre p W k n Ep) as [Hk Hn]. split; auto. unfold pre_letter.
    assert (K : k = 0 \/ k = 1 \/ k = 2) by lia. destruct K as [-> | [-> | ->]]; auto.
  - destruct (s_post p) eqn:E; auto. apply (wf_post p W); auto.
  - destruct (s_dev p) eqn:E; auto. apply (wf_dev p W); auto.
  - unfold n_loc, loc_ok. destruct (s_local p) as [l|] eqn:El; auto.
    destruct (wf_local p W l El) as [Ln Ls]. apply join_dots_local_ok.
    + destruct l; [congruence | discriminate].
    + apply Forall_forall. intros t Ht. apply in_map_iff in Ht. destruct Ht as (u & <- & Hu).
      apply seg_text_alnum. rewrite Forall_forall in Ls. auto.
Qed.
