(* compare() and Canon() of version.go: dispatch on the extension. *)
From DepsDev Require Import Lib.Base Semver.Version Semver.Maven Semver.Gem Semver.Pep440.
Local Open Scope Z_scope.

(* v1.Compare(v2) for non-nil versions.  A type assertion between extensions of two
   different kinds would panic; versions of one system always carry the same kind. *)
Definition compare (a b : version) : res Z :=
  if negb (sys_eqb (v_sys a) (v_sys b)) then Ok (sgnZ (sys_index (v_sys a)) (sys_index (v_sys b)))
  else match v_ext a, v_ext b with
       | MavenExt x, MavenExt y => maven_compare x y
       | Pep440Ext x, Pep440Ext y => Ok (pep_compare (v_num a) (v_num b) x y)
       | GemExt x, GemExt y => Ok (gem_compare (v_num a) (v_num b) x y)
       | NoExt, _ | _, NoExt => Ok (generic_compare (v_sys a) a b)
       | _, _ => Panic PExplicit
       end.

Definition canon (show_build : bool) (v : version) : bytes :=
  match v_ext v with
  | NoExt => generic_canon show_build v
  | MavenExt l => maven_canon l
  | Pep440Ext e => pep_canon (v_num v) e
  | GemExt l => gem_canon (v_num v) l
  end.
