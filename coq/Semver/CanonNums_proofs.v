(* The number part of the canonical string (Version.v print_nums) as a rendering of a list:
   the numbers padded to three, cut after the first wildcard.  Facts about that list. *)
From Coq Require Import Lia.
From DepsDev Require Import Lib.Base Semver.Version Semver.Parse Semver.ParseLex_proofs Semver.ParseRender_proofs
  Semver.ParseSound_proofs.
Local Open Scope Z_scope.

Local Arguments infinity : simpl never.

(* up to and including the first wildcard; what follows it *)
Fixpoint cut_wild (l : list Z) : list Z :=
  match l with [] => [] | x :: t => if x =? wildcard then [x] else x :: cut_wild t end.
Fixpoint after_wild (l : list Z) : list Z :=
  match l with [] => [] | x :: t => if x =? wildcard then t else after_wild t end.

Definition cnums (l : list Z) : list Z := cut_wild (padz l).

Lemma cut_after l : l = cut_wild l ++ after_wild l.
Proof. induction l as [|x t IH]; [reflexivity|]. cbn [cut_wild after_wild]. destruct (x =? wildcard); cbn [app]; congruence. Qed.

Lemma cut_wild_nowild l : is_wildcard l = false -> cut_wild l = l.
Proof.
  unfold is_wildcard. induction l as [|x t IH]; [reflexivity|]. cbn [existsb cut_wild]. intros H.
  apply orb_false_iff in H. destruct H as [H1 H2]. rewrite H1, (IH H2). reflexivity.
Qed.

Lemma is_wildcard_app a b : is_wildcard (a ++ b) = is_wildcard a || is_wildcard b.
Proof. unfold is_wildcard. apply existsb_app. Qed.

Lemma is_wildcard_zeros n : is_wildcard (repeat 0 n) = false.
Proof. induction n; [reflexivity|]. cbn [repeat]. unfold is_wildcard in *. cbn [existsb]. rewrite IHn. reflexivity. Qed.

Lemma cut_wild_app_wild a b : is_wildcard a = true -> cut_wild (a ++ b) = cut_wild a.
Proof.
  unfold is_wildcard. induction a as [|x t IH]; [discriminate|]. cbn [existsb cut_wild app]. intros H.
  destruct (x =? wildcard); [reflexivity|]. cbn [orb] in H. rewrite (IH H). reflexivity.
Qed.

Lemma is_wildcard_cut l : is_wildcard (cut_wild l) = is_wildcard l.
Proof.
  unfold is_wildcard. induction l as [|x t IH]; [reflexivity|]. cbn [cut_wild existsb].
  destruct (x =? wildcard) eqn:E; cbn [existsb]; rewrite E; [reflexivity|]. cbn [orb]. exact IH.
Qed.

Lemma cut_wild_idem l : cut_wild (cut_wild l) = cut_wild l.
Proof.
  induction l as [|x t IH]; [reflexivity|]. cbn [cut_wild].
  destruct (x =? wildcard) eqn:E; cbn [cut_wild]; rewrite E; [reflexivity|]. rewrite IH. reflexivity.
Qed.

Lemma is_wildcard_padz l : is_wildcard (padz l) = is_wildcard l.
Proof. unfold padz. rewrite is_wildcard_app, is_wildcard_zeros, orb_false_r. reflexivity. Qed.

Lemma is_wildcard_cnums l : is_wildcard (cnums l) = is_wildcard l.
Proof. unfold cnums. rewrite is_wildcard_cut, is_wildcard_padz. reflexivity. Qed.

Lemma padz_length l : length (padz l) = Nat.max 3 (length l).
Proof. unfold padz. rewrite app_length, repeat_length. lia. Qed.

Lemma padz_long l : (3 <= length l)%nat -> padz l = l.
Proof. intros H. unfold padz. replace (3 - length l)%nat with 0%nat by lia. apply app_nil_r. Qed.

Lemma padz_idem l : padz (padz l) = padz l.
Proof. apply padz_long. rewrite padz_length. lia. Qed.

(* cnums in the two cases *)
Lemma cnums_nowild l : is_wildcard l = false -> cnums l = padz l.
Proof. intros H. unfold cnums. apply cut_wild_nowild. rewrite is_wildcard_padz. exact H. Qed.

Lemma cnums_wild l : is_wildcard l = true -> cnums l = cut_wild l.
Proof. intros H. unfold cnums, padz. apply cut_wild_app_wild. exact H. Qed.

Lemma cnums_padz l : cnums (padz l) = cnums l.
Proof. unfold cnums. rewrite padz_idem. reflexivity. Qed.

Lemma cnums_idem l : cnums (cnums l) = cnums l.
Proof.
  destruct (is_wildcard l) eqn:W.
  - rewrite (cnums_wild l W). rewrite cnums_wild by (rewrite is_wildcard_cut; exact W). apply cut_wild_idem.
  - rewrite (cnums_nowild l W). rewrite cnums_padz. exact (cnums_nowild l W).
Qed.

Lemma cnums_length_nowild l : is_wildcard l = false -> (3 <= length (cnums l))%nat.
Proof. intros W. rewrite (cnums_nowild l W), padz_length. lia. Qed.

Lemma cut_wild_length l : (length (cut_wild l) <= length l)%nat.
Proof.
  induction l as [|x t IH]; [cbn; lia|]. cbn [cut_wild]. destruct (x =? wildcard); cbn [length]; lia.
Qed.

Lemma cut_wild_nonempty l : l <> [] -> cut_wild l <> [].
Proof. destruct l as [|x t]; [congruence|]. intros _. cbn [cut_wild]. destruct (x =? wildcard); discriminate. Qed.

(* ------------------------------------------------------------------ get_num *)
Lemma get_num_app_l a : forall b i, (i < length a)%nat -> get_num (a ++ b) i = get_num a i.
Proof.
  induction a as [|x a IH]; intros b i H; [cbn in H; lia|].
  destruct i; [reflexivity|]. cbn [app get_num]. apply IH. cbn [length] in H. lia.
Qed.

Lemma get_num_mid a : forall x b, get_num (a ++ x :: b) (length a) = x.
Proof. induction a as [|y a IH]; intros x b; [reflexivity|]. cbn [app length get_num]. apply IH. Qed.

Lemma get_num_zeros n i : get_num (repeat 0 n) i = 0.
Proof. revert i. induction n as [|n IH]; intros i; [destruct i; reflexivity|]. destruct i; [reflexivity|]. cbn [repeat get_num]. apply IH. Qed.

Lemma get_num_padz l : forall i, get_num (padz l) i = get_num l i.
Proof.
  unfold padz. induction l as [|x l IH]; intros i.
  - cbn [app length]. rewrite get_num_zeros. destruct i; reflexivity.
  - destruct i; [reflexivity|]. cbn [app get_num length].
    destruct (Nat.le_gt_cases 3 (length l)) as [H|H].
    + replace (3 - S (length l))%nat with 0%nat by lia. cbn [repeat]. rewrite app_nil_r. reflexivity.
    + (* fewer zeros are appended to the tail than padz of the tail would, which reads the same *)
      rewrite <- (IH i). clear IH.
      replace (3 - length l)%nat with (S (3 - S (length l))) by lia.
      generalize (3 - S (length l))%nat. intros k. revert i.
      induction l as [|y l IHl]; intros i.
      * cbn [app]. rewrite !get_num_zeros. reflexivity.
      * destruct i; [reflexivity|]. cbn [app get_num]. apply IHl. cbn [length] in H. lia.
Qed.

(* ------------------------------------------------------------------ print_nums *)
Fixpoint pr (first : bool) (xs : list Z) : bytes :=
  match xs with
  | [] => []
  | x :: t => (if first then [] else [46%N]) ++ (if x =? wildcard then [42%N] else value_string x ++ pr false t)
  end.

Lemma print_nums_from_ext l m : (forall i, get_num l i = get_num m i) ->
  forall n i, print_nums_from l i n = print_nums_from m i n.
Proof. intros H. induction n as [|n IH]; intros i; [reflexivity|]. cbn [print_nums_from]. rewrite H, IH. reflexivity. Qed.

Lemma print_nums_from_pr : forall post pre,
  print_nums_from (pre ++ post) (length pre) (length post) = pr (Nat.eqb (length pre) 0) post.
Proof.
  induction post as [|x post IH]; intros pre; [reflexivity|].
  cbn [length print_nums_from pr]. rewrite get_num_mid.
  specialize (IH (pre ++ [x])). rewrite <- app_assoc in IH. cbn [app] in IH.
  rewrite app_length in IH. cbn [length] in IH. rewrite Nat.add_1_r in IH. rewrite IH. cbn [Nat.eqb].
  destruct (length pre); reflexivity.
Qed.

Lemma print_nums_pr l : print_nums l = pr true (padz l).
Proof.
  unfold print_nums, at_least3. rewrite <- padz_length.
  rewrite (print_nums_from_ext l (padz l)) by (intros i; symmetry; apply get_num_padz).
  exact (print_nums_from_pr (padz l) []).
Qed.

Lemma pr_cut xs : forall first, pr first (cut_wild xs) = pr first xs.
Proof.
  induction xs as [|x t IH]; intros first; [reflexivity|]. cbn [cut_wild pr].
  destruct (x =? wildcard) eqn:E; cbn [pr]; rewrite E; [reflexivity|]. rewrite IH. reflexivity.
Qed.

Lemma print_nums_cnums l : print_nums l = pr true (cnums l).
Proof. rewrite print_nums_pr. unfold cnums. symmetry. apply pr_cut. Qed.

(* tokens *)
Definition tok (v : Z) : bytes := if v =? wildcard then [42%N] else Z_to_dec v.

(* a wildcard only in last position *)
Fixpoint wl (xs : list Z) : Prop :=
  match xs with [] => True | x :: t => (x = wildcard -> t = []) /\ wl t end.

Lemma wl_cut l : wl (cut_wild l).
Proof.
  induction l as [|x t IH]; [exact I|]. cbn [cut_wild]. destruct (x =? wildcard) eqn:E.
  - split; [reflexivity | exact I].
  - split; [intros H; subst x; discriminate | exact IH].
Qed.

Lemma pr_false_dots xs : wl xs -> Forall (fun v => v <> infinity) xs -> pr false xs = dots (map tok xs).
Proof.
  induction xs as [|x t IH]; intros W F; [reflexivity|].
  destruct W as [W1 W2]. inversion F as [|? ? Fx Ft]; subst.
  cbn [pr map dots flat_map app]. fold (dots (map tok t)). unfold tok at 1.
  destruct (x =? wildcard) eqn:E.
  - apply Z.eqb_eq in E. rewrite (W1 E). reflexivity.
  - unfold value_string. apply Z.eqb_neq in Fx. rewrite Fx, E, (IH W2 Ft). reflexivity.
Qed.

Lemma pr_true_toks x t : wl (x :: t) -> Forall (fun v => v <> infinity) (x :: t) ->
  pr true (x :: t) = tok x ++ dots (map tok t).
Proof.
  intros [W1 W2] F. inversion F as [|? ? Fx Ft]; subst. cbn [pr app]. unfold tok at 1.
  destruct (x =? wildcard) eqn:E.
  - apply Z.eqb_eq in E. rewrite (W1 E). reflexivity.
  - unfold value_string. apply Z.eqb_neq in Fx. rewrite Fx, E, (pr_false_dots t W2 Ft). reflexivity.
Qed.
