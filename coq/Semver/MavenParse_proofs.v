(* Invariants of the Maven parser model (MavenParse.v): every element it produces has a
   non-empty text that does not start with a separator, i.e. category numeric or qualifier.
   With Maven_proofs.maven_compare_no_panic this closes the C04 obligation of the comparator
   for all accepted strings. *)
From Coq Require Import Lia.
From DepsDev Require Import Lib.Base Lib.Order Semver.Version Semver.Maven Semver.MavenParse Semver.MavenDomain
  Semver.Compare Semver.Maven_proofs.
Local Open Scope Z_scope.

Lemma mcat_cases s : s <> [] ->
  maven_category s = cat_numeric \/ maven_category s = cat_separator \/ maven_category s = cat_qualifier.
Proof.
  destruct s as [|c t]; [congruence|]. intros _. unfold maven_category.
  destruct (is_digit c); auto. destruct ((c =? 46)%N || (c =? 45)%N); auto.
  destruct c as [|p]; auto.
  repeat (match goal with |- context [match ?x with _ => _ end] => destruct x end; auto).
Qed.

Lemma mcat_sep_bcat c t : maven_category (c :: t) = cat_separator <-> bcat c = cat_separator.
Proof.
  unfold maven_category, bcat. destruct (is_digit c); [split; discriminate|].
  destruct ((c =? 46)%N || (c =? 45)%N); [split; reflexivity|].
  split.
  - intros H. exfalso. destruct c as [|p]; try discriminate.
    repeat (match type of H with context [match ?x with _ => _ end] => destruct x end; try discriminate).
  - destruct ((c =? 226)%N || (c =? 136)%N || (c =? 158)%N); discriminate.
Qed.

Lemma okcat_iff e : me_str e <> [] -> cat_of e <> cat_separator -> okcat e.
Proof.
  intros N S. unfold okcat, cat_of in *. destruct (mcat_cases (me_str e) N) as [H|[H|H]]; auto. contradiction.
Qed.

Lemma span_cat_head prev s : forall a b, span_cat prev s = (a, b) ->
  a = [] \/ exists d a', a = d :: a' /\ bcat d <> cat_separator.
Proof.
  destruct s as [|c t]; intros a b H; simpl in H.
  - inversion H; auto.
  - destruct ((bcat c =? prev) && negb (bcat c =? cat_separator)) eqn:E.
    + destruct (span_cat prev t) as [a0 b0]. inversion H; subst. right. exists c, a0. split; auto.
      apply andb_true_iff in E. destruct E as [_ E]. apply negb_true_iff in E. apply Z.eqb_neq in E. exact E.
    + inversion H; auto.
Qed.

Lemma span_cat_nonempty c t : bcat c <> cat_separator -> fst (span_cat (bcat c) (c :: t)) <> [].
Proof.
  intros H. simpl. rewrite Z.eqb_refl. simpl.
  destruct (Z.eqb_spec (bcat c) cat_separator); [contradiction|]. simpl.
  destruct (span_cat (bcat c) t). simpl. intros X; inversion X.
Qed.

Lemma next_elem_nonempty s : s <> [] -> fst (next_maven_elem s) <> [].
Proof.
  destruct s as [|c [|d t]]; intros H.
  - congruence.
  - simpl. intros X; inversion X.
  - unfold next_maven_elem.
  destruct (Z.eqb_spec (bcat c) cat_separator) as [E|E].
    + destruct (span_cat (bcat d) (d :: t)). simpl. intros X; inversion X.
    + apply (span_cat_nonempty c (d :: t) E).
Qed.

(* after the separator, the rest of the element is empty or starts with a non-separator *)
Lemma next_elem_after_sep s c str1 rest : next_maven_elem s = (c :: str1, rest) ->
  maven_category (c :: str1) = cat_separator ->
  str1 = [] \/ exists d a', str1 = d :: a' /\ bcat d <> cat_separator.
Proof.
  intros H S. apply mcat_sep_bcat in S.
  destruct s as [|c0 [|d t]].
  - simpl in H. inversion H.
  - simpl in H. inversion H; auto.
  - unfold next_maven_elem in H. destruct (Z.eqb_spec (bcat c0) cat_separator) as [E|E].
    + destruct (span_cat (bcat d) (d :: t)) as [a b] eqn:Sp. inversion H; subst.
      apply (span_cat_head _ _ _ _ Sp).
    + exfalso. destruct (span_cat (bcat c0) (c0 :: d :: t)) as [a b] eqn:Sp.
      simpl in Sp. rewrite Z.eqb_refl in Sp. simpl in Sp.
      destruct (Z.eqb_spec (bcat c0) cat_separator); [contradiction|]. simpl in Sp.
      destruct ((bcat d =? bcat c0) && negb (bcat d =? cat_separator)); [destruct (span_cat (bcat c0) t)|];
        inversion Sp; subst; inversion H; subst; contradiction.
Qed.

Lemma okcat_shortcut p : okcat p -> okcat (shortcut p).
Proof.
  intros H. unfold shortcut.
  repeat (match goal with |- context [match ?x with _ => _ end] => destruct x end);
    try exact H; right; reflexivity.
Qed.

Local Arguments next_maven_elem : simpl never.
Local Arguments maven_category : simpl never.

Lemma scan_okcat fuel : forall s first pc racc l,
  Forall okcat racc -> mvn_scan fuel s first pc racc = Ok l -> Forall okcat l.
Proof.
  induction fuel as [|f IH]; intros s first pc racc l R H.
  - destruct s; simpl in H; [|discriminate]. inversion H; subst. apply Forall_rev; auto.
  - destruct s as [|c0 t0]; simpl in H; [inversion H; subst; apply Forall_rev; auto|].
    destruct (next_maven_elem (c0 :: t0)) as [str rest] eqn:NE. cbv iota beta in H.
    pose proof (next_elem_nonempty (c0 :: t0) ltac:(discriminate)) as NN. rewrite NE in NN. simpl in NN.
    destruct (maven_category str =? cat_unknown); [discriminate|].
    destruct (Z.eqb_spec (maven_category str) cat_separator) as [S|S].
    + destruct str as [|c str1]; [discriminate|].
      apply IH in H; auto. constructor; auto.
      destruct (next_elem_after_sep _ _ _ _ NE S) as [E|[d [a' [E Hd]]]]; subst.
      * left. reflexivity.
      * apply okcat_iff; simpl; [discriminate|]. intros X. apply mcat_sep_bcat in X. contradiction.
    + assert (O : forall sep, okcat (mk_elem sep str)) by (intros sep; apply okcat_iff; simpl; auto).
      destruct first; [apply IH in H; auto|].
      destruct (maven_category str =? cat_numeric).
      * destruct (pc =? cat_numeric); [apply IH in H; auto|].
        destruct (pc =? cat_qualifier); [|apply IH in H; auto].
        destruct racc as [|p r]; [discriminate|]. inversion R; subst.
        apply IH in H; auto. constructor; auto. constructor; auto. apply okcat_shortcut; auto.
      * apply IH in H; auto.
Qed.

Lemma Forall_firstn {A} (P : A -> Prop) n : forall l, Forall P l -> Forall P (firstn n l).
Proof. induction n; intros l H; simpl; [constructor|]. destruct l; auto. inversion H; subst. constructor; auto. Qed.

Lemma Forall_remove_at {A} (P : A -> Prop) l i : Forall P l -> Forall P (remove_at l i).
Proof.
  intros H. unfold remove_at. apply Forall_app. split; [apply Forall_firstn | apply Forall_skipn]; auto.
Qed.

Lemma trim_inner_Forall (P : mvn_elem -> Prop) z fuel : forall l i r,
  Forall P l -> trim_inner_with z fuel l i = Ok r -> Forall P (fst r).
Proof.
  induction fuel as [|f IH]; intros l i r H E; simpl in E; [discriminate|].
  destruct i as [|i']; [inversion E; subst; auto|].
  destruct (idx l (S i')) as [e| | |]; simpl in E; try discriminate.
  destruct (is_empty_elem_with z (me_str e)).
  - eapply IH; [|exact E]. apply Forall_remove_at; auto.
  - inversion E; subst; auto.
Qed.

Lemma trim_outer_Forall (P : mvn_elem -> Prop) z fuel : forall l i r,
  Forall P l -> trim_outer_with z fuel l i = Ok r -> Forall P r.
Proof.
  induction fuel as [|f IH]; intros l i r H E; simpl in E; [discriminate|].
  destruct (Nat.ltb i (length l)); [|inversion E; subst; auto].
  assert (INNER : forall r,
    bind (trim_inner_with z (S (length l)) l i) (fun r0 => trim_outer_with z f (fst r0) (S (snd r0))) = Ok r -> Forall P r).
  { intros r0 E0. destruct (trim_inner_with z (S (length l)) l i) as [x| | |] eqn:TI; simpl in E0; try discriminate.
    eapply IH; [|exact E0]. eapply trim_inner_Forall; eauto. }
  destruct (Nat.ltb i (length l - 1)).
  - destruct (idx l (S i)) as [e| | |]; simpl in E; try discriminate.
    destruct (negb (N.eqb (me_sep e) 45)); [eapply IH; eauto | apply INNER; auto].
  - apply INNER; auto.
Qed.

Lemma ints_okcat l : forall r, Forall okcat l -> mvn_ints l = Ok r -> Forall okcat (fst r).
Proof.
  induction l as [|e t IH]; intros r H E; simpl in E; [inversion E; subst; constructor|].
  inversion H; subst.
  destruct (maven_category (me_str e) =? cat_numeric).
  - destruct (bytes_eqb (me_str e) s_inf).
    + destruct (mvn_ints t) as [x| | |]; simpl in E; try discriminate. inversion E; subst. simpl.
      constructor; [exact H2 | apply IH; auto].
    + destruct (parse_num (me_str e)); [|discriminate].
      destruct (mvn_ints t) as [x| | |]; simpl in E; try discriminate. inversion E; subst. simpl.
      constructor; [exact H2 | apply IH; auto].
  - destruct (mvn_ints t) as [x| | |]; simpl in E; try discriminate. inversion E; subst. simpl.
    constructor; [exact H2 | apply IH; auto].
Qed.

Theorem mvn_parse_okcat s v : mvn_parse s = Some (Ok v) -> Forall okcat (mvn_elems v).
Proof.
  unfold mvn_parse, mvn_parse_with. destruct (mvn_fragment s); [|discriminate]. intros H. inversion H as [H'].
  unfold mvn_init_with in H'.
  destruct (mvn_scan (S (length (to_lower s))) (to_lower s) true cat_unknown []) as [l| | |] eqn:SC; simpl in H'; try discriminate.
  destruct (mvn_trim_with mvn_fix_zero_spelling l) as [l'| | |] eqn:TR; simpl in H'; try discriminate.
  destruct (mvn_ints l') as [r| | |] eqn:IN; simpl in H'; try discriminate.
  inversion H'; subst. unfold mvn_elems. simpl.
  eapply ints_okcat; [|exact IN].
  eapply trim_outer_Forall; [|exact TR].
  eapply scan_okcat; [|exact SC]. constructor.
Qed.

(* for all accepted strings, compare returns a value: no panic, no other failure *)
Theorem maven_compare_total sa sb a b : mvn_parse sa = Some (Ok a) -> mvn_parse sb = Some (Ok b) ->
  exists r, compare a b = Ok r.
Proof.
  intros Pa Pb. pose proof (mvn_parse_okcat sa a Pa) as Oa. pose proof (mvn_parse_okcat sb b Pb) as Ob.
  unfold mvn_parse, mvn_parse_with in Pa, Pb.
  destruct (mvn_fragment sa); [|discriminate]. destruct (mvn_fragment sb); [|discriminate].
  destruct (mvn_init_with mvn_fix_zero_spelling sa) as [ra| | |]; simpl in Pa; try discriminate.
  destruct (mvn_init_with mvn_fix_zero_spelling sb) as [rb| | |]; simpl in Pb; try discriminate.
  inversion Pa; inversion Pb; subst. unfold compare, mvn_elems in *. simpl in *.
  apply maven_compare_no_panic; auto.
Qed.
