(* C03, npm layer, further operators on a full release version M.m.p against node-semver's
   desugaring, on release candidates:  <=M.m.p,  >M.m.p (p below 2^63-2),  ^0.m.p (all shapes). *)
From Coq Require Import Lia.
From DepsDev Require Import Lib.Base Lib.Order Semver.Version Semver.Maven Semver.Gem Semver.Pep440 Semver.Compare
     Semver.Generic_proofs Semver.Compare_proofs Semver.Span Semver.Interval Semver.Set Semver.Constraint
     Semver.Span_proofs Semver.Inc_proofs Semver.Inter_proofs Gen.SemverTables Spec.NodeRange Semver.C03_proofs.
Local Open Scope Z_scope.

Section MoreOps.
Variable pv : system -> bool -> bytes -> res parse_out.
Variables (str : bytes) (M m p : Z).
Hypothesis HM : fin M.
Hypothesis Hm : fin m.
Hypothesis Hp : fin p.

Notation lo := (mk3 str M m p).

Ltac prep :=
  unfold op_version_to_span; rewrite (W_lo str M m p HM Hm Hp); cbn [andb];
  change (v_sys lo) with SNPM; change (v_num lo) with [M; m; p];
  unfold go_tokEmpty, go_tokEqual, go_tokGreater, go_tokGreaterEqual, go_tokLess, go_tokLessEqual,
         go_tokCaret, go_tokTilde, go_tokBacon;
  cbn [sys_eqb sys_index Z.eqb Pos.eqb length Nat.ltb Nat.leb has_pre v_pre mk3 andb negb orb].

Ltac finish_bool :=
  unfold lowb; repeat rewrite ?andb_false_r, ?andb_true_r, ?orb_false_r; cbn [orb andb negb];
  repeat match goal with
         | |- context [?a =? ?b] => destruct (Z.eqb_spec a b)
         | |- context [?a <? ?b] => destruct (Z.ltb_spec a b)
         | |- context [?a <=? ?b] => destruct (Z.leb_spec a b)
         end; cbn [orb andb negb]; try reflexivity; exfalso.

(* <=M.m.p : [0.0.0-0, M.m.p] ; node: <=M.m.p *)
Theorem op_le_sound : npm_sound M m p (op_version_to_span pv go_tokLessEqual lo) OpLe.
Proof.
  unfold npm_sound. prep.
  unfold op_tail. cbn [min_version v_sys mk3 sys_eqb sys_index Z.eqb Pos.eqb v_user_num_count].
  unfold needs_rebuild. cbn [sys_eqb sys_index Z.eqb Pos.eqb orb v_sys set_tail].
  change (set_tail
       {| v_sys := SNPM; v_user_num_count := 3; v_is_prerelease := false; v_str := s_min_str;
          v_num := [0; 0; 0]; v_pre := [[48%N]]; v_build := []; v_ext := NoExt |} infinity infinity)
    with (min_npm 3).
  rewrite (set_tail_lo str M m p HM Hm Hp).
  unfold fin in *.
  rewrite new_span_min by lia.
  eexists. split; [reflexivity|]. intros u x y z C. split; [|apply in_span_release; apply C].
  rewrite (in_vec_min _ _ _ _ _ _ u x y z C), (release_set_test _ u x y z C).
  unfold desugar_simple, desugar_xrange, full, view. cbn [pa_major pa_minor pa_patch pa_pre map forallb gte0 mk_sv].
  rewrite (test_le u x y z M m p C). rewrite (lex3_antisym x y z M m p).
  finish_bool; lia.
Qed.

(* >M.m.p : [M.m.(p+1), inf.inf.inf] ; node: >M.m.p.  (p + 1 must not reach the value that stands
   for infinity) *)
Theorem op_gt_sound : p < infinity - 1 -> npm_sound M m p (op_version_to_span pv go_tokGreater lo) OpGt.
Proof.
  intros Hp1. unfold npm_sound. prep. unfold all_v. cbn [v_num mk3 forallb]. unfold wildcard, fin in *.
  assert (A1 : (M =? -1) = false) by (apply Z.eqb_neq; lia). rewrite A1. cbn [andb].
  unfold is_rubygems_or_pypi. cbn [sys_eqb sys_index Z.eqb Pos.eqb orb].
  assert (INC : version_inc lo = Ok (mk3 str M m (p + 1))).
  { unfold version_inc, has_pre. cbn [v_pre mk3 v_num length find_wild_or_inf].
    unfold is_wild_or_inf, wildcard.
    rewrite A1. rewrite !(proj2 (Z.eqb_neq _ _)) by lia. cbn [orb].
    unfold inc_n. cbn [v_num mk3 length Nat.sub idx nth_error bind].
    rewrite value_inc_small by lia. reflexivity. }
  rewrite INC. cbn [bind].
  change (vset_build (mk3 str M m (p + 1)) []) with (mk3 str M m (p + 1)).
  unfold op_ge. change (v_sys (mk3 str M m (p + 1))) with SNPM.
  cbn [sys_eqb sys_index Z.eqb Pos.eqb andb bind].
  assert (W : is_wildcard_v (mk3 str M m (p + 1)) = false) by (apply wild_false; lia).
  unfold op_tail.
  assert (T : set_tail (mk3 str M m (p + 1)) infinity infinity = mk3 str M m (p + 1)).
  { unfold set_tail. cbn [v_num mk3 at_least3 length Nat.max pad_to Nat.sub repeat app fill_from].
    rewrite !(proj2 (Z.eqb_neq _ infinity)) by lia. reflexivity. }
  rewrite T. change (v_sys (mk3 str M m (p + 1))) with SNPM.
  unfold needs_rebuild. cbn [sys_eqb sys_index Z.eqb Pos.eqb orb].
  change (set_tail (vset_build (clear_pre (vset_num lo (map (fun _ : Z => infinity) (v_num lo)))) []) infinity infinity)
    with (mk3 str infinity infinity infinity).
  rewrite new_span_3 by (unfold infinity in *; try lia; apply lex3_lt; lia).
  eexists. split; [reflexivity|]. intros u x y z C. split; [|apply in_span_release; apply C].
  rewrite (in_vec_3 _ _ _ _ _ _ _ _ _ _ u x y z C), (release_set_test _ u x y z C).
  unfold desugar_simple, desugar_xrange, full, view. cbn [pa_major pa_minor pa_patch pa_pre map forallb gte0 mk_sv].
  rewrite (test_gt u x y z M m p C).
  pose proof C as C0. destruct C as (_ & _ & _ & _ & Hx & Hy & Hz). unfold fin in *.
  pose proof (lex3_lt infinity infinity infinity x y z) as U1.
  pose proof (lex3_eq infinity infinity infinity x y z) as U2.
  pose proof (lex3_lt x y z M m (p + 1)) as L1. pose proof (lex3_eq x y z M m (p + 1)) as L2.
  pose proof (lex3_lt x y z M m p) as K1. pose proof (lex3_eq x y z M m p) as K2.
  finish_bool; lia.
Qed.

(* ^0.m.p : m > 0: [0.m.p, 0.m.inf], node >=0.m.p <0.(m+1).0-0 ;  m = 0: the single version 0.0.p,
   node >=0.0.p <0.0.(p+1)-0 *)
Theorem op_caret0_sound : M = 0 -> npm_sound M m p (op_version_to_span pv go_tokCaret lo) OpCaret.
Proof.
  intros E0. unfold npm_sound. prep. unfold major, minor, wildcard. cbn [v_num mk3 get_num Nat.eqb].
  unfold fin in *. subst M. cbn [Z.eqb andb].
  destruct (Z.eqb_spec m 0) as [Em|Nm]; cbn [negb andb].
  - (* ^0.0.p *)
    change (clear_pre (mk3 str 0 m p)) with (mk3 str 0 m p).
    assert (U : new_span (mk3 str 0 m p) false (mk3 str 0 m p) false = new_span_same (mk3 str 0 m p) false false).
    { unfold new_span_same.
      assert (W : nowild (mk3 str 0 m p) = true) by (eapply nowild_3; try reflexivity; lia).
      rewrite (major_nowild _ W), (set_tail_nowild _ 0 W (or_introl eq_refl)).
      unfold new_span. rewrite (major_nowild _ W), (set_tail_nowild _ 0 W (or_introl eq_refl)),
        (set_tail_nowild _ infinity W (or_intror eq_refl)). reflexivity. }
    rewrite U, new_span_3_unit by lia.
    eexists. split; [reflexivity|]. intros u x y z C. split; [|apply in_span_release; apply C].
    rewrite (in_unit_3 _ _ _ _ _ _ u x y z C), (release_set_test _ u x y z C).
    unfold desugar_simple, desugar_caret, full, view. cbn [pa_major pa_minor pa_patch pa_pre Z.eqb].
    rewrite (proj2 (Z.eqb_eq m 0) Em).
    cbn [map forallb]. unfold c_lt0, pre_zero. cbn [gte0].
    rewrite (test_lt u x y z 0 m (p + 1) _ C).
    pose proof C as C0. destruct C as (_ & _ & _ & _ & Hx & Hy & Hz). unfold fin in *.
    pose proof (lex3_lt 0 m p x y z) as U1. pose proof (lex3_eq 0 m p x y z) as U2.
    pose proof (lex3_lt x y z 0 m p) as L1. pose proof (lex3_eq x y z 0 m p) as L2.
    pose proof (lex3_lt x y z 0 m (p + 1)) as V1. pose proof (lex3_eq x y z 0 m (p + 1)) as V2.
    unfold c_ge, gte0. cbn [mk_sv sv_major sv_minor sv_patch sv_pre Z.eqb andb].
    rewrite (proj2 (Z.eqb_eq m 0) Em). cbn [andb].
    destruct (Z.eqb_spec p 0) as [Ep|Np].
    + cbn [pcmp_test andb]. finish_bool; lia.
    + cbn [andb]. rewrite (test_ge u x y z 0 m p [] C0). finish_bool; lia.
  - (* ^0.m.p, m > 0 *)
    change (clear_pre (set_patch (mk3 str 0 m p) infinity)) with (mk3 str 0 m infinity).
    rewrite new_span_3 by (unfold infinity in *; try lia; apply lex3_lt; lia).
    eexists. split; [reflexivity|]. intros u x y z C. split; [|apply in_span_release; apply C].
    rewrite (in_vec_3 _ _ _ _ _ _ _ _ _ _ u x y z C), (release_set_test _ u x y z C).
    unfold desugar_simple, desugar_caret, full, view. cbn [pa_major pa_minor pa_patch pa_pre Z.eqb].
    rewrite (proj2 (Z.eqb_neq m 0) Nm).
    cbn [map forallb]. unfold c_lt0, pre_zero. cbn [gte0].
    rewrite (test_lt u x y z 0 (m + 1) 0 _ C).
    unfold c_ge, gte0. cbn [mk_sv sv_major sv_minor sv_patch sv_pre Z.eqb andb].
    rewrite (proj2 (Z.eqb_neq m 0) Nm). cbn [andb].
    rewrite (test_ge u x y z 0 m p [] C).
    pose proof C as C0. destruct C as (_ & _ & _ & _ & Hx & Hy & Hz). unfold fin in *.
    pose proof (lex3_lt 0 m infinity x y z) as U1. pose proof (lex3_eq 0 m infinity x y z) as U2.
    pose proof (lex3_lt x y z 0 m p) as L1. pose proof (lex3_eq x y z 0 m p) as L2.
    pose proof (lex3_lt x y z 0 (m + 1) 0) as V1. pose proof (lex3_eq x y z 0 (m + 1) 0) as V2.
    finish_bool; lia.
Qed.
End MoreOps.
