(* Totality of the SemVer-family version parser (C04): parse never panics, whatever the
   input bytes.  The only indexing that could go out of range is l[len(l)-1] on the last
   prerelease element in the NuGet floating-version branch; prerelease elements are never
   empty, so it cannot. *)
From Coq Require Import Lia.
From DepsDev Require Import Lib.Base Semver.Version Gen.SemverTables Semver.Parse.
Local Open Scope Z_scope.

Definition nonempty (e : bytes) : Prop := e <> [].

Lemma with_lex_pre p l : ps_pre (with_lex p l) = ps_pre p. Proof. reflexivity. Qed.
Lemma set_err_pre p : ps_pre (set_err p) = ps_pre p. Proof. reflexivity. Qed.
Lemma push_num_pre p v : ps_pre (push_num p v) = ps_pre p. Proof. reflexivity. Qed.
Lemma mark_pre_pre p : ps_pre (mark_pre p) = ps_pre p. Proof. reflexivity. Qed.

Lemma parser_add_num_pre sys p v : ps_pre (snd (parser_add_num sys p v)) = ps_pre p.
Proof.
  unfold parser_add_num.
  destruct (Nat.eqb (length (ps_num p)) 3); destruct sys; simpl;
    repeat match goal with |- context [if ?c then _ else _] => destruct c; simpl end; reflexivity.
Qed.

Lemma parse_number_pre sys p : ps_pre (snd (parse_number sys p)) = ps_pre p.
Proof.
  unfold parse_number.
  destruct (lex_peek (ps_lex p)) as [pk lpk].
  destruct (l_inf (ps_lex p) && (pk =? r_inf)).
  - destruct (lex_next lpk) as [r1 l1]. rewrite parser_add_num_pre. reflexivity.
  - destruct (take_digits _ _ _) as [ds l1].
    destruct ds as [|d0 dt].
    + destruct (l_rest l1) as [|c t]; [reflexivity|].
      destruct (valid_wildcard sys c); [|reflexivity].
      rewrite parser_add_num_pre. simpl.
      match goal with |- context [if ?c then set_err _ else _] => destruct c end; reflexivity.
    + destruct (_ && negb _); [reflexivity|].
      destruct (parse_num_digits (d0 :: dt)); [|reflexivity].
      rewrite parser_add_num_pre.
      match goal with |- context [if ?c then set_err _ else _] => destruct c end; reflexivity.
Qed.

Lemma numbers_loop_pre sys fuel : forall p r, ps_pre (snd (numbers_loop sys fuel p r)) = ps_pre p.
Proof.
  induction fuel as [|f IH]; intros p r; simpl; [reflexivity|].
  destruct (r =? 46); [|reflexivity].
  pose proof (parse_number_pre sys p) as H.
  destruct (parse_number sys p) as [ok p1]. simpl in H.
  destruct ok; [|simpl; auto].
  destruct (lex_next (ps_lex p1)) as [r' l2]. rewrite IH. simpl. exact H.
Qed.

Lemma parse_elem_spec sys p :
  ps_pre (snd (parse_elem sys p)) = ps_pre p /\
  (forall e, fst (parse_elem sys p) = Some e -> nonempty e).
Proof.
  unfold parse_elem.
  destruct (elem_loop sys _ (ps_lex p) false []) as [e l1].
  destruct e as [|c e'].
  - destruct (lex_peek l1) as [pk l2]. simpl. split; [reflexivity | discriminate].
  - simpl. split; [reflexivity|]. intros e H. inversion H. unfold nonempty. discriminate.
Qed.

Lemma metadata_loop_pre sys fuel : forall p keep n r,
  Forall nonempty (ps_pre p) ->
  Forall nonempty (ps_pre (snd (fst (metadata_loop sys fuel p keep n r)))).
Proof.
  induction fuel as [|f IH]; intros p keep n r H; simpl; [exact H|].
  destruct (parse_elem_spec sys p) as (Hp & He).
  destruct (parse_elem sys p) as [eo p1]. simpl in Hp, He.
  destruct eo as [e|]; simpl; [|rewrite Hp; exact H].
  specialize (He e eq_refl).
  match goal with |- context [lex_next ?l] => destruct (lex_next l) as [r' l3] end.
  assert (HF : Forall nonempty (ps_pre (with_lex
            (if keep then {| ps_lex := ps_lex p1; ps_num := ps_num p1; ps_pre := ps_pre p1 ++ [e];
                            ps_is_pre := ps_is_pre p1; ps_build := ps_build p1 |} else p1) l3))).
  { destruct keep; simpl; rewrite Hp; auto. apply Forall_app; split; auto. }
  destruct (r' =? 46); [apply IH; exact HF | simpl; exact HF].
Qed.

Lemma parse_metadata_pre sys p keep :
  Forall nonempty (ps_pre p) -> Forall nonempty (ps_pre (snd (parse_metadata sys p keep))).
Proof.
  intros H. unfold parse_metadata.
  pose proof (metadata_loop_pre sys (S (length (l_rest (ps_lex p)))) p keep 0%nat 0 H) as HF.
  destruct (metadata_loop sys _ p keep 0%nat 0) as [[r p1] n]. simpl in HF.
  destruct (Nat.eqb n 0); simpl; exact HF.
Qed.

Lemma last_opt_in {A} (l : list A) x : last_opt l = Some x -> In x l.
Proof.
  unfold last_opt. induction l as [|a l IH]; simpl; [discriminate|].
  destruct l as [|b l'].
  - simpl. intros H; inversion H; auto.
  - intros H. right. apply IH. exact H.
Qed.

Lemma last_opt_nonempty {A} (l : list A) : l <> [] -> last_opt l <> None.
Proof.
  unfold last_opt. induction l as [|a l IH]; [congruence|]. intros _.
  destruct l as [|b l']; simpl; [discriminate|]. apply IH. discriminate.
Qed.

Lemma pf_pre_no_panic sys r p3 x : Forall nonempty (ps_pre p3) -> pf_pre sys r p3 <> Panic x.
Proof.
  intros H. unfold pf_pre.
  destruct (r =? 45).
  { destruct (sys_eqb sys SGo && Nat.ltb (length (ps_num p3)) 3); discriminate. }
  destruct ((r =? 42) && sys_eqb sys SNuGet).
  - destruct (lex_next (ps_lex p3)) as [r' l4].
    destruct (r' =? r_eof); [discriminate|].
    pose proof (parse_metadata_pre sys (mark_pre (with_lex p3 l4)) true H) as HF.
    destruct (parse_metadata sys (mark_pre (with_lex p3 l4)) true) as [r'' p6]. simpl in HF.
    destruct (last_opt (ps_pre p6)) as [le|] eqn:E; [|discriminate].
    apply last_opt_in in E. rewrite Forall_forall in HF. specialize (HF le E).
    destruct (last_opt le) as [c|] eqn:E2.
    + destruct (N.eqb c 42); discriminate.
    + exfalso. exact (last_opt_nonempty le HF E2).
  - destruct (sys_eqb sys SRubyGems && (r =? 46)); discriminate.
Qed.

Lemma pf_build_no_panic sys str r p5 x : pf_build sys str r p5 <> Panic x.
Proof.
  unfold pf_build.
  destruct ((r =? 43) && negb (sys_eqb sys SRubyGems)); [|discriminate].
  destruct (sys_eqb sys SGo && Nat.ltb (length (ps_num p5)) 3); [discriminate|].
  destruct (parse_metadata sys p5 false). discriminate.
Qed.

Lemma pf_finish_no_panic sys str r p7 x : pf_finish sys str r p7 <> Panic x.
Proof. unfold pf_finish. destruct (l_err _); discriminate. Qed.

Lemma pf_numbers_pre sys str l1 r p2 : pf_numbers sys str l1 = Some (r, p2) -> ps_pre p2 = [].
Proof.
  unfold pf_numbers.
  set (p0 := {| ps_lex := l1; ps_num := []; ps_pre := []; ps_is_pre := false; ps_build := [] |}).
  pose proof (parse_number_pre sys p0) as H1.
  destruct (parse_number sys p0) as [ok p1]. cbn [snd] in H1.
  destruct ok; cbn [negb]; [|discriminate].
  destruct (lex_next (ps_lex p1)) as [r1 l2].
  pose proof (numbers_loop_pre sys (S (length str)) (with_lex p1 l2) r1) as H2.
  destruct (numbers_loop sys (S (length str)) (with_lex p1 l2) r1) as [r2 p2']. cbn [snd] in H2.
  rewrite with_lex_pre in H2.
  intros E. inversion E; subst. clear E.
  match goal with |- context [if ?c then _ else _] => destruct c end; cbn [ps_pre]; rewrite H2; exact H1.
Qed.

Theorem parse_front_no_panic sys allow_inf str x : parse_front sys allow_inf str <> Panic x.
Proof.
  unfold parse_front.
  destruct (allow_inf && bytes_eqb str s_inf3); [discriminate|].
  destruct (pf_numbers sys str (pf_prefix sys allow_inf str)) as [[r p2]|] eqn:E; [|discriminate].
  apply pf_numbers_pre in E.
  destruct ((r =? 46) && Nat.ltb (length (ps_num p2)) 3 && negb (sys_eqb sys SRubyGems)); [discriminate|].
  set (rp := if sys_eqb sys SRubyGems && z_is_alnum r then (45, with_lex p2 (lex_back (ps_lex p2))) else (r, p2)).
  assert (Hp : Forall nonempty (ps_pre (snd rp))).
  { unfold rp. destruct (sys_eqb sys SRubyGems && z_is_alnum r); simpl; rewrite E; constructor. }
  destruct rp as [r3 p3]. simpl in Hp.
  pose proof (pf_pre_no_panic sys r3 p3 x Hp) as H1.
  destruct (pf_pre sys r3 p3) as [[r5 p5]| | |]; try discriminate; try congruence.
  pose proof (pf_build_no_panic sys str r5 p5 x) as H2.
  destruct (pf_build sys str r5 p5) as [[r7 p7]| | |]; try discriminate; try congruence.
  apply pf_finish_no_panic.
Qed.

(* parse_front has no OutOfFuel outcome either: its loops return normally when their fuel,
   one more than the remaining input, is used up (each iteration consumes input). *)
Theorem parse_front_no_fuel sys allow_inf str : parse_front sys allow_inf str <> OutOfFuel.
Proof.
  unfold parse_front.
  destruct (allow_inf && bytes_eqb str s_inf3); [discriminate|].
  destruct (pf_numbers sys str (pf_prefix sys allow_inf str)) as [[r p2]|]; [|discriminate].
  destruct ((r =? 46) && Nat.ltb (length (ps_num p2)) 3 && negb (sys_eqb sys SRubyGems)); [discriminate|].
  destruct (if sys_eqb sys SRubyGems && z_is_alnum r then _ else _) as [r3 p3].
  assert (H1 : pf_pre sys r3 p3 <> OutOfFuel).
  { unfold pf_pre.
    repeat match goal with
           | |- context [if ?c then _ else _] => destruct c
           | |- context [let '(_, _) := ?e in _] => destruct e
           | |- context [match last_opt ?l with _ => _ end] => destruct (last_opt l)
           end; discriminate. }
  destruct (pf_pre sys r3 p3) as [[r5 p5]| | |]; try discriminate; try congruence.
  assert (H2 : pf_build sys str r5 p5 <> OutOfFuel).
  { unfold pf_build.
    repeat match goal with
           | |- context [if ?c then _ else _] => destruct c
           | |- context [let '(_, _) := ?e in _] => destruct e
           end; discriminate. }
  destruct (pf_build sys str r5 p5) as [[r7 p7]| | |]; try discriminate; try congruence.
  unfold pf_finish. destruct (l_err _); discriminate.
Qed.

Theorem parse_total sys str : (exists v, parse sys str = Ok v) \/ (exists e, parse sys str = Err e).
Proof.
  unfold parse, parse_internal.
  destruct (possible_version_string sys str); [|right; eauto].
  pose proof (parse_front_no_panic sys false str) as HP.
  pose proof (parse_front_no_fuel sys false str) as HF.
  destruct (parse_front sys false str) as [[v b]|e|x|]; eauto.
  - exfalso. apply (HP x). reflexivity.
  - exfalso. apply HF. reflexivity.
Qed.

Theorem parse_internal_total sys inf str :
  (exists v, parse_internal sys inf str = Ok v) \/ (exists e, parse_internal sys inf str = Err e).
Proof.
  unfold parse_internal.
  pose proof (parse_front_no_panic sys inf str) as HP.
  pose proof (parse_front_no_fuel sys inf str) as HF.
  destruct (parse_front sys inf str) as [[v b]|e|x|]; eauto.
  - exfalso. apply (HP x). reflexivity.
  - exfalso. apply HF. reflexivity.
Qed.

(* The operators table regenerated from token.go has an entry for every system. *)
Lemma operators_cover_systems :
  forallb (fun nv => Z.ltb (snd nv) (Z.of_nat (length operators))) system_consts = true.
Proof. vm_compute. reflexivity. Qed.
