(* Model of util/semver/rubygems.go: comparison and canonical printer.
   (The parser gemExtension.init is in GemParse.v.)  Definitions only. *)
From DepsDev Require Import Lib.Base Semver.Version Semver.Maven.
Local Open Scope Z_scope.

(* versionCategory(s, 0) of extension.go: first rune *)
Definition version_category (s : bytes) : Z :=
  match s with
  | [] => cat_eof
  | c :: t =>
      if is_digit c then cat_numeric
      else if ((97 <=? c) && (c <=? 122))%N || ((65 <=? c) && (c <=? 90))%N || (N.eqb c 95) then cat_qualifier
      else if (N.eqb c 46) || (N.eqb c 45) then cat_separator
      else if N.eqb c 42 then cat_star
      else match s with
           | 226%N :: 136%N :: 158%N :: _ => cat_numeric
           | _ => cat_unknown
           end
  end.

Definition gem_elem_eqb (a b : gem_elem) : bool :=
  bytes_eqb (ge_str a) (ge_str b) && (ge_int a =? ge_int b).

Definition gem_pad : gem_elem := {| ge_str := [48%N]; ge_int := 0 |}.

(* Whether equal numeric elements continue (repaired) or return 0 at once (F-C01-1). *)
Definition gem_fix_numeric_continue : bool := true.

Definition gem_step (ao bo : option gem_elem) : step_res :=
  let a := match ao with Some a => a | None => gem_pad end in
  let b := match bo with Some b => b | None => gem_pad end in
  if gem_elem_eqb a b then Continue
  else
    let ac := version_category (ge_str a) in
    let bc := version_category (ge_str b) in
    let ac := if ac =? cat_eof then cat_qualifier else ac in
    let bc := if bc =? cat_eof then cat_qualifier else bc in
    if bc <? ac then Return 1
    else if ac <? bc then Return (-1)
    else if ac =? cat_numeric then
      if gem_fix_numeric_continue && (sgnZ (ge_int a) (ge_int b) =? 0) then Continue
      else Return (sgnZ (ge_int a) (ge_int b))
    else let c := bytes_compare (ge_str a) (ge_str b) in
         if c =? 0 then Continue else Return c.

Fixpoint gem_loop_l (xs : list gem_elem) : option Z :=
  match xs with
  | [] => None
  | x :: xs' => match gem_step (Some x) None with Return r => Some r | _ => gem_loop_l xs' end
  end.
Fixpoint gem_loop_r (ys : list gem_elem) : option Z :=
  match ys with
  | [] => None
  | y :: ys' => match gem_step None (Some y) with Return r => Some r | _ => gem_loop_r ys' end
  end.
Fixpoint gem_loop (xs ys : list gem_elem) : option Z :=
  match xs, ys with
  | [], _ => gem_loop_r ys
  | _, [] => gem_loop_l xs
  | x :: xs', y :: ys' => match gem_step (Some x) (Some y) with Return r => Some r | _ => gem_loop xs' ys' end
  end.

Definition gem_compare (na nb : list Z) (xs ys : list gem_elem) : Z :=
  let c := compare_nums na nb in
  if negb (c =? 0) then c
  else match xs, ys with
       | [], [] => 0
       | [], _ => 1
       | _, [] => -1
       | _, _ => match gem_loop xs ys with
                 | Some r => r
                 | None => 0     (* every element, padding included, compared equal *)
                 end
       end.

(* canon: numbers (at least three) then "-" and the elements joined by ".", a leading
   "pre" element being dropped *)
Definition s_pre : bytes := [112; 114; 101]%N.

Fixpoint print_plain_nums (l : list Z) (i n : nat) : bytes :=
  match n with
  | O => []
  | S n' => (match i with O => [] | _ => [46%N] end) ++ value_string (get_num l i) ++ print_plain_nums l (S i) n'
  end.

Fixpoint gem_canon_elems (first printed : bool) (l : list gem_elem) : bytes :=
  match l with
  | [] => []
  | e :: t =>
      if first && bytes_eqb (ge_str e) s_pre then gem_canon_elems false printed t
      else (if printed then [46%N] else []) ++ ge_str e ++ gem_canon_elems false true t
  end.

Definition gem_canon (nums : list Z) (l : list gem_elem) : bytes :=
  print_plain_nums nums 0 (at_least3 nums) ++
  match l with [] => [] | _ => 45%N :: gem_canon_elems true false l end.
