(* Lemmas about the scanning functions shared by the proofs that relate the Go parser model
   to the PEP 440 reference (Pep440Link_proofs.v) and to the printers (Pep440Print_proofs.v):
   character classes, digits and numbers, white space, the epoch, release segments.
   Nothing here depends on the regenerated spelling tables. *)
From Coq Require Import List ZArith NArith Lia Bool.
From DepsDev Require Import Lib.Base Lib.Order Semver.Version Semver.Pep440 Semver.Pep440Parse
  Spec.Pep440Spec Semver.Pep440Abs Semver.Pep440_proofs Semver.Pep440Parse_proofs Semver.Pep440C02_proofs.
Import ListNotations.
Local Open Scope Z_scope.

Local Arguments is_digit : simpl never.
Local Arguments sp_alpha : simpl never.
Local Arguments is_alpha : simpl never.
Local Arguments sp_sep : simpl never.

(* ---------- the two scanners share their character classes ---------- *)
Lemma opt_sep_allow_sep s : opt_sep s = allow_sep s.
Proof. destruct s; reflexivity. Qed.

Lemma sp_strip_v_strip_v s : sp_strip_v s = strip_v s.
Proof. destruct s; reflexivity. Qed.

Lemma sp_alnum_is_alnum c : sp_alnum c = is_alnum c.
Proof. reflexivity. Qed.

Definition ascii (s : bytes) : Prop := Forall (fun c => (c < 128)%N) s.

Lemma num_run_ascii s : ascii s -> num_run s = span_digits s.
Proof.
  induction 1 as [|c t Hc Ht IH]; simpl; auto.
  destruct (is_digit c); [rewrite IH; reflexivity|].
  destruct t as [|c2 [|c3 t']]; auto.
  destruct (N.eqb_spec c 226); [lia|]. reflexivity.
Qed.

Lemma span_digits_app s : s = fst (span_digits s) ++ snd (span_digits s).
Proof.
  induction s as [|c t IH]; simpl; auto. destruct (is_digit c); simpl; auto.
  destruct (span_digits t); simpl in *. congruence.
Qed.

Lemma span_digits_digits s : forallb is_digit (fst (span_digits s)) = true.
Proof.
  induction s as [|c t IH]; cbn [span_digits]; auto. destruct (is_digit c) eqn:E; auto.
  destruct (span_digits t) as [d r]; cbn [fst forallb] in *. rewrite E. auto.
Qed.

Lemma span_digits_rest s : match snd (span_digits s) with c :: _ => is_digit c = false | [] => True end.
Proof.
  induction s as [|c t IH]; simpl; auto. destruct (is_digit c) eqn:E; simpl; auto.
  destruct (span_digits t); simpl in *. auto.
Qed.

(* span_digits of digits followed by a non-digit *)
Lemma span_digits_split d r : forallb is_digit d = true ->
  match r with c :: _ => is_digit c = false | [] => True end ->
  span_digits (d ++ r) = (d, r).
Proof.
  intros Hd Hr. induction d as [|c d IH]; simpl in *.
  - destruct r as [|c r]; auto. simpl. rewrite Hr. reflexivity.
  - apply andb_true_iff in Hd. destruct Hd as [Hc Hd]. rewrite Hc. rewrite (IH Hd). reflexivity.
Qed.

(* ---------- case folding: str[i]|0x20 == pat[i] vs lower-casing ---------- *)
Fixpoint nrange (n : nat) : list N :=
  match n with O => [] | S k => nrange k ++ [N.of_nat k] end.

Lemma in_nrange n c : (c < N.of_nat n)%N -> In c (nrange n).
Proof.
  induction n as [|k IH]; intros H; [lia|].
  simpl. apply in_or_app. destruct (N.eq_dec c (N.of_nat k)) as [->|Hne].
  - right. left. reflexivity.
  - left. apply IH. lia.
Qed.

Definition letters : list N := map (fun k => (97 + N.of_nat k)%N) (seq 0 26).

Lemma fold_table :
  forallb (fun c => forallb (fun p => Bool.eqb (N.eqb (N.lor c 32) p) (N.eqb (ascii_lower c) p)) letters) (nrange 128) = true.
Proof. vm_compute. reflexivity. Qed.

Lemma in_letters p : (97 <= p <= 122)%N -> In p letters.
Proof.
  intros H. unfold letters. apply in_map_iff. exists (N.to_nat (p - 97)). split; [lia|].
  apply in_seq. lia.
Qed.

Lemma fold_eq c p : (97 <= p <= 122)%N -> N.eqb (N.lor c 32) p = N.eqb (ascii_lower c) p.
Proof.
  intros Hp. destruct (N.lt_ge_cases c 128) as [Hc|Hc].
  - pose proof fold_table as T. rewrite forallb_forall in T.
    specialize (T c (in_nrange 128 c Hc)). rewrite forallb_forall in T.
    specialize (T p (in_letters p Hp)). apply Bool.eqb_prop in T. exact T.
  - assert (L : (128 <= N.lor c 32)%N).
    { assert (7 <= N.log2 (N.lor c 32))%N.
      { rewrite N.log2_lor. apply N.max_le_iff. left.
        change 7%N with (N.log2 128). apply N.log2_le_mono. auto. }
      destruct (N.lt_ge_cases (N.lor c 32) 128) as [Hlt|]; auto.
      assert (N.lor c 32 <> 0)%N by (intros E; rewrite E in H; simpl in H; lia).
      change 128%N with (2 ^ 7)%N in Hlt. apply N.log2_lt_pow2 in Hlt; lia. }
    unfold ascii_lower.
    assert (N.leb c 90 = false) by (apply N.leb_gt; lia). rewrite H, andb_false_r.
    destruct (N.eqb_spec (N.lor c 32) p), (N.eqb_spec c p); auto; lia.
Qed.

Definition lower_word (w : bytes) : Prop := Forall (fun p => (97 <= p <= 122)%N) w.

Lemma has_ascii_prefix_ci w : lower_word w -> forall s,
  has_ascii_prefix s w = match ci_prefix w s with Some _ => true | None => false end.
Proof.
  induction 1 as [|p w Hp Hw IH]; intros s.
  - destruct s; reflexivity.
  - destruct s as [|c s]; simpl; auto. rewrite (fold_eq c p Hp).
    destruct (N.eqb (ascii_lower c) p); simpl; auto.
Qed.

Lemma ci_prefix_skipn w : forall s r, ci_prefix w s = Some r -> r = skipn (length w) s.
Proof.
  induction w as [|p w IH]; intros s r H; simpl in *.
  - congruence.
  - destruct s as [|c s]; [discriminate|]. destruct (N.eqb (ascii_lower c) p); [|discriminate]. auto.
Qed.

Lemma ci_prefix_alpha p w s r : (97 <= p <= 122)%N -> ci_prefix (p :: w) s = Some r ->
  exists c t, s = c :: t /\ sp_alpha c = true.
Proof.
  intros Hp H. simpl in H. destruct s as [|c s]; [discriminate|].
  destruct (N.eqb_spec (ascii_lower c) p) as [E|]; [|discriminate].
  exists c, s. split; auto. unfold sp_alpha, ascii_lower in *.
  destruct (N.leb_spec 65 c), (N.leb_spec c 90); simpl in *; auto;
    destruct (N.leb_spec 97 c), (N.leb_spec c 122); simpl; auto; lia.
Qed.

(* ---------- numbers ---------- *)
Lemma dec_val_ge d : forall a, 0 <= a -> a <= dec_val d a.
Proof.
  induction d as [|c d IH]; intros a Ha; cbn [dec_val]; [lia|].
  assert (0 <= Z.of_N (c - 48)) by apply N2Z.is_nonneg.
  specialize (IH (10 * a + Z.of_N (c - 48)) ltac:(lia)). lia.
Qed.

Lemma sp_int_nonneg d : 0 <= sp_int d.
Proof. unfold sp_int. apply (dec_val_ge d 0). lia. Qed.

Lemma parse_uint64_go_dec d : forall a, 0 <= a -> forallb is_digit d = true -> dec_val d a <= max_uint64 ->
  parse_uint64_go d a = dec_val d a.
Proof.
  induction d as [|c d IH]; intros a Ha Hd Hm; cbn [parse_uint64_go dec_val] in *; auto.
  cbn [forallb] in Hd. apply andb_true_iff in Hd. destruct Hd as [Hc Hd]. rewrite Hc.
  assert (0 <= Z.of_N (c - 48)) by apply N2Z.is_nonneg.
  pose proof (dec_val_ge d (10 * a + Z.of_N (c - 48)) ltac:(lia)).
  destruct (Z.ltb_spec max_uint64 (10 * a + Z.of_N (c - 48))); [lia|].
  apply IH; auto; lia.
Qed.

Lemma to_int64_small v : 0 <= v < two63 -> to_int64 v = v.
Proof.
  unfold to_int64, two63. intros H. rewrite Z.mod_small by lia.
  destruct (Z.ltb_spec v 9223372036854775808); lia.
Qed.

(* pep440Extension.number on ASCII input *)
Lemma pep_number_spec i : ascii i ->
  pep_number i =
  (match fst (span_digits (opt_sep i)) with
   | [] => 0
   | d => to_int64 (parse_uint64_go d 0)
   end, snd (span_digits (opt_sep i))).
Proof.
  intros A. unfold pep_number. rewrite <- opt_sep_allow_sep.
  assert (A' : ascii (opt_sep i)).
  { destruct i as [|c t]; simpl; auto. inversion A; subst. destruct (sp_sep c); auto. }
  rewrite (num_run_ascii _ A').
  pose proof (span_digits_app (opt_sep i)) as E.
  destruct (span_digits (opt_sep i)) as [d r]. simpl in *.
  destruct d; simpl in *; congruence.
Qed.

Lemma go_number_value d : forallb is_digit d = true -> sp_int d < two63 ->
  match d with [] => 0 | n :: l => to_int64 (parse_uint64_go (n :: l) 0) end = sp_int d.
Proof.
  intros Hd Hw. destruct d as [|c d']; [reflexivity|].
  rewrite parse_uint64_go_dec; auto; try lia.
  - apply to_int64_small. split; [apply sp_int_nonneg | exact Hw].
  - unfold sp_int, two63, max_uint64 in *. lia.
Qed.

(* ---------- white space ---------- *)
Definition go_ws (c : N) : bool := (N.leb 9 c && N.leb c 13) || N.eqb c 32.

Lemma go_ws_sp_ws c : go_ws c = true -> sp_ws c = true.
Proof.
  unfold go_ws, sp_ws. intros H. apply orb_true_iff in H. destruct H as [H|H].
  - rewrite H. reflexivity.
  - apply N.eqb_eq in H. subst. reflexivity.
Qed.

Lemma dwe_app_last f s c : drop_while_end f (s ++ [c]) = if f c then drop_while_end f s else s ++ [c].
Proof.
  induction s as [|a s IH]; simpl.
  - destruct (f c); reflexivity.
  - rewrite IH. destruct (f c); auto.
    destruct (s ++ [c]) eqn:E; auto. apply app_eq_nil in E. destruct E; discriminate.
Qed.

Lemma rev_drop_while f s : rev (drop_while f (rev s)) = drop_while_end f s.
Proof.
  induction s as [|c x IH] using rev_ind; [reflexivity|].
  rewrite rev_unit. simpl. rewrite dwe_app_last. destruct (f c); auto.
  simpl. rewrite rev_involutive. reflexivity.
Qed.

Lemma dwe_sub f g s : (forall c, f c = true -> g c = true) ->
  drop_while_end g (drop_while_end f s) = drop_while_end g s.
Proof.
  intros Hfg. induction s as [|c t IH]; simpl; auto.
  destruct (drop_while_end f t) as [|a A] eqn:EA.
  - simpl in IH. rewrite <- IH.
    destruct (f c) eqn:Fc; simpl.
    + rewrite (Hfg c Fc). reflexivity.
    + reflexivity.
  - simpl. simpl in IH. rewrite IH. reflexivity.
Qed.

Lemma dwe_id g s : Forall (fun c => g c = false) s -> drop_while_end g s = s.
Proof.
  induction 1 as [|c t Hc Ht IH]; simpl; auto. rewrite IH. destruct t; auto. rewrite Hc. reflexivity.
Qed.

Lemma chars_ok_gt32 s : chars_ok s = true -> Forall (fun c => (32 < c)%N) s.
Proof.
  induction s as [s IH] using bytes_len_ind.
  destruct s as [|c t]; simpl; [constructor|].
  destruct (N.leb_spec c 32); [discriminate|].
  destruct (N.ltb_spec c 127).
  - intros H'. constructor; [assumption | apply IH; [simpl; lia | assumption]].
  - destruct t as [|c2 [|c3 t']]; try discriminate.
    destruct (N.eqb_spec c 226); [|discriminate]. destruct (N.eqb_spec c2 136); [|discriminate].
    destruct (N.eqb_spec c3 158); [|discriminate]. simpl. intros H'. subst.
    constructor; [lia|]. constructor; [lia|]. constructor; [lia|]. apply IH; [simpl; lia | assumption].
Qed.

(* strip_any on the space table, for an ASCII first byte *)
Lemma strip_any_spaces c t : (c < 128)%N ->
  strip_any space_seqs (c :: t) = if go_ws c then Some t else None.
Proof.
  intros Hc. pose proof (in_nrange 128 c Hc) as H. cbv [nrange app N.of_nat Pos.of_succ_nat Pos.succ] in H.
  repeat (destruct H as [<-|H]; [reflexivity|]). destruct H.
Qed.

Lemma strip_any_rev_spaces c t : (c < 128)%N ->
  strip_any (map (@rev N) space_seqs) (c :: t) = if go_ws c then Some t else None.
Proof.
  intros Hc. pose proof (in_nrange 128 c Hc) as H. cbv [nrange app N.of_nat Pos.of_succ_nat Pos.succ] in H.
  repeat (destruct H as [<-|H]; [reflexivity|]). destruct H.
Qed.

Lemma trim_left_rev_ascii n : forall r, ascii r -> (length r <= n)%nat ->
  trim_left (map (@rev N) space_seqs) n r = drop_while go_ws r.
Proof.
  induction n as [|n IH]; intros r A L.
  - destruct r; [reflexivity | simpl in L; lia].
  - destruct r as [|c t]; [reflexivity|]. inversion A; subst.
    cbn [trim_left]. rewrite strip_any_rev_spaces by auto. simpl.
    destruct (go_ws c); auto. apply IH; auto. simpl in L. lia.
Qed.

Lemma frev_rev s : frev s = rev s.
Proof. unfold frev. rewrite rev_append_rev. apply app_nil_r. Qed.

Lemma ascii_rev s : ascii s -> ascii (rev s).
Proof. apply Forall_rev. Qed.

(* TrimSpace on an ASCII string that does not start with white space *)
Lemma trim_space_ascii c t : ascii (c :: t) -> go_ws c = false ->
  trim_space (c :: t) = drop_while_end go_ws (c :: t).
Proof.
  intros A Hc. unfold trim_space. inversion A; subst.
  assert (E : trim_left space_seqs (length (c :: t)) (c :: t) = c :: t).
  { cbn [length trim_left]. rewrite strip_any_spaces by auto. rewrite Hc. reflexivity. }
  rewrite E. rewrite !frev_rev.
  rewrite trim_left_rev_ascii; [apply rev_drop_while | apply ascii_rev; auto | rewrite rev_length; lia].
Qed.

(* ---------- the core string is the same for both ---------- *)
Lemma possible_first s : possible_pypi s = true -> exists c t, s = c :: t /\ sp_ws c = false.
Proof.
  unfold possible_pypi. destruct s as [|c t]; [discriminate|].
  unfold strip_v.
  destruct (N.eqb_spec c 118) as [->|N1]; [intros _; exists 118%N, t; split; reflexivity|].
  destruct (N.eqb_spec c 86) as [->|N2]; [intros _; exists 86%N, t; split; reflexivity|].
  cbn [orb possible_scan]. intros H. exists c, t. split; auto.
  revert H. unfold is_digit, sp_ws.
  destruct (N.eqb_spec c 46); [subst; discriminate|].
  destruct (N.eqb_spec c 45); [subst; discriminate|].
  destruct (N.eqb_spec c 43); [subst; discriminate|]. cbn [orb].
  destruct (N.leb_spec 9 c), (N.leb_spec c 13), (N.leb_spec 28 c), (N.leb_spec c 32); cbn [andb orb]; auto; try lia;
    destruct (N.leb_spec 48 c), (N.leb_spec c 57); cbn [andb orb]; try lia;
    destruct (N.eqb_spec c 42), (N.eqb_spec c 120), (N.eqb_spec c 88), (N.eqb_spec c 33), (N.eqb_spec c 95);
    cbn [orb andb negb Nat.eqb]; try lia; try discriminate.
Qed.

Lemma is_ascii_ascii s : is_ascii s = true -> ascii s.
Proof.
  unfold is_ascii, ascii. intros H. apply Forall_forall. intros c Hc. rewrite forallb_forall in H.
  apply N.ltb_lt. auto.
Qed.

Lemma cores_equal s : is_ascii s = true -> possible_pypi s = true -> chars_ok (trim_space s) = true ->
  sp_strip s = trim_space s.
Proof.
  intros A P C. apply is_ascii_ascii in A.
  destruct (possible_first s P) as (c & t & -> & Hc).
  assert (Hg : go_ws c = false).
  { destruct (go_ws c) eqn:E; auto. apply go_ws_sp_ws in E. congruence. }
  rewrite (trim_space_ascii c t A Hg) in *.
  unfold sp_strip. cbn [drop_while]. rewrite Hc.
  rewrite <- (dwe_sub go_ws sp_ws (c :: t) go_ws_sp_ws).
  apply dwe_id. apply chars_ok_gt32 in C.
  eapply Forall_impl; [|exact C]. intros a Ha. cbv beta in Ha. unfold sp_ws.
  destruct (N.leb_spec 9 a), (N.leb_spec a 13), (N.leb_spec 28 a), (N.leb_spec a 32); simpl; auto; lia.
Qed.

Lemma ascii_dwe f s : ascii s -> ascii (drop_while_end f s).
Proof.
  induction 1 as [|c t Hc Ht IH]; simpl; [constructor|].
  destruct (drop_while_end f t); [destruct (f c); constructor; auto | constructor; auto].
Qed.

(* ---------- suffixes stay ASCII ---------- *)
Lemma ascii_skipn n s : ascii s -> ascii (skipn n s).
Proof. revert s. induction n; intros s A; simpl; auto. destruct s; auto. inversion A; auto. Qed.

Lemma ascii_opt_sep s : ascii s -> ascii (opt_sep s).
Proof. intros A. destruct s as [|c t]; simpl; auto. inversion A; subst. destruct (sp_sep c); auto. Qed.

Lemma ascii_span_digits s : ascii s -> ascii (snd (span_digits s)).
Proof.
  induction 1 as [|c t Hc Ht IH]; simpl; [constructor|].
  destruct (is_digit c); [|constructor; auto]. destruct (span_digits t); simpl in *; auto.
Qed.

Lemma ascii_app_r a b : ascii (a ++ b) -> ascii b.
Proof. intros H. apply Forall_app in H. tauto. Qed.

(* ---------- epoch and the optional v ---------- *)
Lemma split_at_byte_spec b s : match split_at_byte b s with
  | Some (x, y) => s = x ++ b :: y /\ ~ In b x
  | None => ~ In b s
  end.
Proof.
  induction s as [|c t IH]; simpl; auto.
  destruct (N.eqb_spec c b) as [->|Hne].
  - split; auto.
  - destruct (split_at_byte b t) as [[x y]|].
    + destruct IH as [-> Hn]. split; auto. simpl. intros [E|E]; auto.
    + intros [E|E]; auto.
Qed.

Lemma digits_val_some d : forall a n, digits_val d a = Some n -> forallb is_digit d = true /\ n = dec_val d a.
Proof.
  induction d as [|c d IH]; intros a n H; cbn [digits_val dec_val forallb] in *.
  - inversion H. auto.
  - destruct (is_digit c); [|discriminate]. apply IH in H. simpl. exact H.
Qed.

Lemma sp_release_digit f s rel s2 : sp_release f s = Some (rel, s2) ->
  exists c t, s = c :: t /\ is_digit c = true.
Proof.
  destruct f; [discriminate|]. simpl.
  pose proof (span_digits_app s) as A. pose proof (span_digits_digits s) as D.
  destruct (span_digits s) as [[|c d] r]; [discriminate|]. intros _.
  simpl in *. apply andb_true_iff in D. destruct D as [D _]. exists c, (d ++ r). split; auto.
Qed.

Lemma digit_not_v c : is_digit c = true -> N.eqb c 118 || N.eqb c 86 = false.
Proof.
  unfold is_digit. intros H. apply andb_true_iff in H. destruct H as [H1 H2].
  apply N.leb_le in H1, H2. destruct (N.eqb_spec c 118), (N.eqb_spec c 86); auto; lia.
Qed.

Lemma strip_v_digit c t : is_digit c = true -> strip_v (c :: t) = c :: t.
Proof. intros H. unfold strip_v. rewrite (digit_not_v c H). reflexivity. Qed.

Lemma epoch_stage c e0 input1 ep s1 f rel s2 g nums rest :
  parse_epoch c = Ok (e0, input1) ->
  sp_epoch (strip_v c) = (ep, s1) ->
  sp_release f s1 = Some (rel, s2) ->
  release g (strip_v input1) true = Ok (nums, rest) -> nums <> [] ->
  strip_v input1 = s1 /\ make_ext e0 = set_epoch zero_pep440 ep /\ 0 <= ep.
Proof.
  unfold parse_epoch. pose proof (split_at_byte_spec 33 c) as Sp.
  destruct (split_at_byte 33 c) as [[[|c0 before] after]|].
  - (* the string starts with a bang: Go finds no number *)
    destruct Sp as [-> _]. intros E _ _ R Hn. inversion E; subst.
    exfalso. apply Hn. destruct g; [discriminate|].
    change (strip_v (33%N :: after)) with (33%N :: after) in R.
    cbn [release] in R. unfold segment in R. cbn [num_run] in R.
    change (is_digit 33) with false in R. cbv iota in R.
    destruct after as [|c2 [|c3 t']]; cbn in R; inversion R; reflexivity.
  - destruct Sp as [-> Hn33].
    destruct (digits_val (c0 :: before) 0) as [n|] eqn:Dv; [|discriminate].
    destruct (n <=? 255); [|discriminate]. intros E Se Sr R Hn. inversion E; subst.
    destruct (digits_val_some _ _ _ Dv) as [Dg ->].
    assert (D0 : is_digit c0 = true) by (cbn [forallb] in Dg; apply andb_true_iff in Dg; tauto).
    change ((c0 :: before) ++ 33%N :: input1) with (c0 :: (before ++ 33%N :: input1)) in Se.
    rewrite (strip_v_digit c0 _ D0) in Se.
    unfold sp_epoch in Se.
    change (c0 :: before ++ 33%N :: input1) with ((c0 :: before) ++ 33%N :: input1) in Se.
    rewrite (span_digits_split (c0 :: before) (33%N :: input1) Dg eq_refl) in Se.
    cbn in Se. inversion Se; subst.
    destruct (sp_release_digit _ _ _ _ Sr) as (d & t & -> & Hd).
    rewrite (strip_v_digit d t Hd). repeat split; auto.
    pose proof (dec_val_ge before (Z.of_N (c0 - 48)) (N2Z.is_nonneg _)).
    pose proof (N2Z.is_nonneg (c0 - 48)). lia.
  - intros E Se Sr R Hn. inversion E; subst.
    assert (Se' : sp_epoch (strip_v input1) = (0, strip_v input1)).
    { unfold sp_epoch. pose proof (span_digits_app (strip_v input1)) as A.
      destruct (span_digits (strip_v input1)) as [[|d0 d] r]; auto.
      destruct r as [|b r']; auto. destruct (N.eqb_spec b 33) as [->|]; auto.
      exfalso. apply Sp. simpl in A.
      assert (In 33%N (strip_v input1)) by (rewrite A; simpl; right; apply in_or_app; right; left; reflexivity).
      unfold strip_v in H. destruct input1 as [|x y]; auto.
      destruct (N.eqb x 118 || N.eqb x 86); auto. right; auto. }
    rewrite Se' in Se. inversion Se; subst. repeat split; auto. lia.
Qed.

(* ---------- release segments ---------- *)
Lemma digit_cases c : is_digit c = true ->
  In c [48; 49; 50; 51; 52; 53; 54; 55; 56; 57]%N.
Proof.
  unfold is_digit. intros H. apply andb_true_iff in H. destruct H as [H1 H2]. apply N.leb_le in H1, H2.
  assert (E : (c = 48 \/ c = 49 \/ c = 50 \/ c = 51 \/ c = 52 \/ c = 53 \/ c = 54 \/ c = 55 \/ c = 56 \/ c = 57)%N) by lia.
  simpl. intuition.
Qed.

Lemma parse_num_digits d n : d <> [] -> forallb is_digit d = true -> parse_num d = Some n -> n = sp_int d.
Proof.
  intros Hne Hd. destruct d as [|c0 d']; [congruence|].
  assert (D0 : is_digit c0 = true) by (cbn [forallb] in Hd; apply andb_true_iff in Hd; tauto).
  unfold parse_num. destruct d' as [|c1 d''].
  - rewrite D0. intros H. inversion H. unfold sp_int. cbn [dec_val]. lia.
  - assert (P : parse_int (c0 :: c1 :: d'') 64 =
                match digits_val (c0 :: c1 :: d'') 0 with
                | None => None
                | Some n0 => if (n0 <? - 2 ^ (64 - 1)) || (2 ^ (64 - 1) - 1 <? n0) then None else Some n0
                end).
    { pose proof (digit_cases c0 D0) as I. simpl in I.
      repeat (destruct I as [<-|I]; [reflexivity|]). destruct I. }
    rewrite P. rewrite (digits_val_dec _ 0 Hd).
    destruct ((dec_val (c0 :: c1 :: d'') 0 <? - 2 ^ (64 - 1)) || (2 ^ (64 - 1) - 1 <? dec_val (c0 :: c1 :: d'') 0)); [discriminate|].
    destruct ((dec_val (c0 :: c1 :: d'') 0 <? 0) || (infinity <=? dec_val (c0 :: c1 :: d'') 0)); [discriminate|].
    intros H. inversion H. reflexivity.
Qed.

Lemma digits_not_special d : d <> [] -> forallb is_digit d = true ->
  bytes_eqb d s_inf = false /\ bytes_eqb d [42%N] = false.
Proof.
  intros Hne Hd. destruct d as [|c0 d']; [congruence|].
  assert (D0 : is_digit c0 = true) by (cbn [forallb] in Hd; apply andb_true_iff in Hd; tauto).
  pose proof (digit_cases c0 D0) as I. simpl in I.
  repeat (destruct I as [<-|I]; [split; reflexivity|]). destruct I.
Qed.

Lemma segment_digits s : ascii s -> fst (span_digits s) <> [] -> segment s = span_digits s.
Proof.
  intros A H. unfold segment. rewrite (num_run_ascii s A).
  destruct (span_digits s) as [[|c d] r]; [simpl in H; congruence | reflexivity].
Qed.

Lemma segment_nodigit c t : ascii (c :: t) -> is_digit c = false ->
  segment (c :: t) = if N.eqb c 42 then ([42%N], t) else ([], c :: t).
Proof.
  intros A H. unfold segment. rewrite (num_run_ascii _ A). cbn [span_digits]. rewrite H. reflexivity.
Qed.

Lemma sp_release_unfold f s :
  sp_release (S f) s =
  match span_digits s with
  | ([], _) => None
  | (d, r) =>
      match r with
      | c :: r' =>
          if N.eqb c 46 then
            match sp_release f r' with
            | Some (l, r'') => Some (sp_int d :: l, r'')
            | None => Some ([sp_int d], r)
            end
          else Some ([sp_int d], r)
      | [] => Some ([sp_int d], r)
      end
  end.
Proof. reflexivity. Qed.

(* Both release loops on the same ASCII string.  Either they stop at the same place, or
   the reference stops before a dot that Go swallows, or Go goes on into a wildcard. *)
Lemma release_stage f : forall g s first rel s2 nums rest,
  ascii s -> (length s <= f)%nat ->
  sp_release (S f) s = Some (rel, s2) -> release g s first = Ok (nums, rest) ->
  (nums = rel /\ nonneg rel /\ (rest = s2 \/ (s2 = 46%N :: rest /\ rest <> []))) \/
  (exists t, s2 = 46%N :: 42%N :: t).
Proof.
  induction f as [|f IH]; intros g s first rel s2 nums rest A L HS R.
  - destruct s; [|simpl in L; lia]. discriminate.
  - rewrite sp_release_unfold in HS.
    pose proof (span_digits_app s) as App. pose proof (span_digits_digits s) as Dg.
    pose proof (span_digits_rest s) as Rs.
    destruct (span_digits s) as [d r] eqn:Sd. cbn [fst snd] in *.
    destruct d as [|c0 d']; [discriminate|].
    set (d := c0 :: d') in *.
    assert (Hne : d <> []) by (unfold d; discriminate).
    destruct g as [|g]; [discriminate|]. cbn [release] in R.
    destruct s as [|x s']; [discriminate|].
    rewrite (segment_digits (x :: s') A) in R by (rewrite Sd; auto).
    rewrite Sd in R. fold d in R. unfold d at 1 in R. fold d in R.
    unfold seg_value in R. destruct (digits_not_special d Hne Dg) as [E1 E2]. rewrite E1, E2 in R.
    destruct (parse_num d) as [n|] eqn:Pn; [|discriminate].
    apply (parse_num_digits d n Hne Dg) in Pn. subst n.
    assert (Ar : ascii r) by (rewrite App in A; apply ascii_app_r in A; auto).
    assert (Lr : (length r < length (x :: s'))%nat).
    { rewrite App. rewrite app_length. unfold d. simpl. lia. }
    destruct r as [|c r'].
    + inversion HS; subst. inversion R; subst. left. repeat split; auto.
      constructor; [apply sp_int_nonneg | constructor].
    + destruct (N.eqb_spec c 46) as [->|Hc].
      * destruct r' as [|c' r'']; [discriminate|].
        assert (Ar' : ascii (c' :: r'')) by (inversion Ar; auto).
        destruct (release g (c' :: r'') false) as [[l rr]| | |] eqn:R'; cbn [bind fst snd] in R; try discriminate.
        inversion R; subst nums rest.
        destruct (sp_release (S f) (c' :: r'')) as [[l' r''']|] eqn:S'.
        -- inversion HS; subst rel s2.
           destruct (IH g (c' :: r'') false l' r''' l rr Ar' ltac:(simpl in *; lia) S' R') as [(E & N & D)|X].
           ++ left. subst l'. repeat split; auto. constructor; [apply sp_int_nonneg | auto].
           ++ right. exact X.
        -- inversion HS; subst rel s2.
           (* the reference stops here: no digit follows the dot *)
           cbn [sp_release] in S'.
           destruct (is_digit c') eqn:Dc'.
           { exfalso. cbn [span_digits] in S'. rewrite Dc' in S'.
             destruct (span_digits r'') as [d2 r2].
             destruct r2 as [|c2 r2']; [discriminate|].
             destruct (N.eqb c2 46); [|discriminate].
             destruct (sp_release f r2') as [[? ?]|]; discriminate. }
           destruct g as [|g]; [discriminate|]. cbn [release] in R'.
           rewrite (segment_nodigit c' r'' Ar' Dc') in R'.
           destruct (N.eqb_spec c' 42) as [->|Hs].
           ++ right. exists r''. reflexivity.
           ++ inversion R'; subst l rr. left. repeat split; auto.
              ** constructor; [apply sp_int_nonneg | constructor].
              ** right. split; [reflexivity | discriminate].
      * inversion HS; subst. inversion R; subst. left. repeat split; auto.
        constructor; [apply sp_int_nonneg | constructor].
Qed.


Lemma digit_not_alpha c : is_digit c = true -> sp_alpha c = false /\ sp_sep c = false.
Proof.
  unfold sp_alpha, sp_sep, is_digit. intros H. apply andb_true_iff in H. destruct H as [H1 H2].
  apply N.leb_le in H1, H2.
  destruct (N.leb_spec 97 c), (N.leb_spec c 122), (N.leb_spec 65 c), (N.leb_spec c 90),
    (N.eqb_spec c 46), (N.eqb_spec c 45), (N.eqb_spec c 95); simpl; split; auto; lia.
Qed.

Lemma last_alnum y : forall x, forallb sp_alnum (x :: y) = true -> is_alnum (last (x :: y) 0%N) = true.
Proof.
  induction y as [|z y IH]; intros x H; cbn [last].
  - cbn [forallb] in H. apply andb_true_iff in H. tauto.
  - apply IH. cbn [forallb] in H. apply andb_true_iff in H. tauto.
Qed.
