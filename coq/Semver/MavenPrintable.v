(* Element lists that the canonical printer and the parser take back and forth: the boolean
   hypothesis of the C10 round-trip theorem for Maven (shared with the harness, which checks
   it on every parsed list).  Definitions only. *)
From DepsDev Require Import Lib.Base Semver.Version Semver.Maven Semver.MavenParse Gen.MavenVariants.
Local Open Scope Z_scope.

(* a non-empty text whose bytes all have the same category, not separator *)
Definition pstr_b (s : bytes) : bool :=
  match s with
  | [] => false
  | c :: _ => negb (bcat c =? cat_separator) && forallb (fun d => bcat d =? bcat c) s
  end.

Definition pe_b (e : mvn_elem) : bool :=
  (N.eqb (me_sep e) 45 || N.eqb (me_sep e) 46) && pstr_b (me_str e).

(* the list as the first loop of init builds it: integers not yet filled in, first separator 0 *)
Definition strip1 (e : mvn_elem) : mvn_elem := mk_elem (me_sep e) (me_str e).
Definition strip (l : list mvn_elem) : list mvn_elem :=
  match l with
  | [] => []
  | e0 :: t => mk_elem 0 (me_str e0) :: map strip1 t
  end.

Definition head_sep0 (l : list mvn_elem) : list mvn_elem :=
  match l with
  | [] => []
  | e :: t => {| me_sep := 0; me_str := me_str e; me_int := me_int e |} :: t
  end.

Definition mvn_list_eqb (a b : list mvn_elem) : bool :=
  (fix go (a b : list mvn_elem) : bool :=
     match a, b with
     | [], [] => true
     | x :: a', y :: b' => mvn_elem_eqb x y && go a' b'
     | _, _ => false
     end) a b.

(* what the first loop of init builds from the printed list, and what the parser returns for it,
   by variant of the printer (h: a non-zero first separator is printed) *)
Definition strip_with (h : bool) (l : list mvn_elem) : list mvn_elem := if h then map strip1 l else strip l.
Definition head_with (h : bool) (l : list mvn_elem) : list mvn_elem := if h then l else head_sep0 l.

Definition head_ok_b (h : bool) (l : list mvn_elem) : bool :=
  match l with
  | [] => true
  | e0 :: _ => if h then N.eqb (me_sep e0) 0 || N.eqb (me_sep e0) 45 || N.eqb (me_sep e0) 46 else true
  end.

(* texts homogeneous and lower-case, separators '.' or '-', inside the modelled fragment, and a
   fixed point of the trimming loop (z: variant of the zero test) and of the integer pass *)
Definition printable_with (h z : bool) (l : list mvn_elem) : bool :=
  match l with
  | [] => true
  | e0 :: t =>
      pstr_b (me_str e0) && forallb pe_b t && head_ok_b h l
      && bytes_eqb (to_lower (maven_canon_with h l)) (maven_canon_with h l)
      && mvn_fragment (maven_canon_with h l)
      && match mvn_trim_with z (strip_with h l) with Ok l' => mvn_list_eqb l' (strip_with h l) | _ => false end
      && match mvn_ints (strip_with h l) with Ok r => mvn_list_eqb (fst r) (head_with h l) | _ => false end
  end.

(* the variant of the tree *)
Definition printable_b (l : list mvn_elem) : bool := printable_with go_mvn_canon_head_sep mvn_fix_zero_spelling l.
