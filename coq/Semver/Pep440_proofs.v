(* Proofs about the PEP 440 comparator (Pep440.v): pep_compare is a total preorder on
   ALL inputs (numbers may contain the wildcard -1 and infinity, the extension may be
   any record, no well-formedness needed).  Used by Properties/C01_pypi.v. *)
From Coq Require Import List ZArith NArith Lia Bool.
From DepsDev Require Import Lib.Base Lib.Order Semver.Version Semver.Pep440.
Import ListNotations.
Local Open Scope Z_scope.

Lemma Forall_True {A} (l : list A) : Forall (fun _ => True) l.
Proof. induction l; constructor; auto. Qed.

Lemma sgnZ_cmpZ a b : sgnZ a b = cmpZ a b.
Proof. reflexivity. Qed.

Lemma cmpZ_eqb a b : (cmpZ a b =? 0) = (a =? b).
Proof.
  unfold cmpZ. destruct (Z.compare_spec a b); destruct (Z.eqb_spec a b); try reflexivity; lia.
Qed.

Lemma cmpZ_refl a : cmpZ a a = 0.
Proof. unfold cmpZ. rewrite Z.compare_refl. reflexivity. Qed.

Lemma cmpZ_range a b : cmpZ a b = -1 \/ cmpZ a b = 0 \/ cmpZ a b = 1.
Proof. unfold cmpZ. destruct (a ?= b); auto. Qed.

(* ---------- byte strings ---------- *)
Lemma bytes_compare_list_lex a : forall b, bytes_compare a b = list_lex cmpN (-1) a b.
Proof.
  induction a as [|x a IH]; intros [|y b]; simpl; auto.
  unfold cmpN. destruct (N.compare x y); simpl; auto.
Qed.

Lemma bytes_core : cmp_core (fun _ => True) bytes_compare.
Proof.
  eapply core_ext with (c := list_lex cmpN (-1)).
  - intros; symmetry; apply bytes_compare_list_lex.
  - eapply core_weaken; [| apply (core_list_lex cmpN (-1) (fun _ => True) cmpN_core); lia].
    intros; apply Forall_True.
Qed.

Lemma bytes_compare_eq a : forall b, bytes_compare a b = 0 <-> a = b.
Proof.
  induction a as [|x a IH]; intros [|y b]; simpl; split; intros H; try reflexivity; try discriminate.
  - destruct (N.compare_spec x y); try discriminate. subst. f_equal. apply IH; auto.
  - inversion H; subst. rewrite N.compare_refl. apply IH; auto.
Qed.

Lemma bytes_eqb_eq a : forall b, bytes_eqb a b = true <-> a = b.
Proof.
  induction a as [|x a IH]; intros [|y b]; simpl; split; intros H; try reflexivity; try discriminate.
  - apply andb_true_iff in H. destruct H as [H1 H2]. apply N.eqb_eq in H1. subst. f_equal. apply IH; auto.
  - inversion H; subst. rewrite N.eqb_refl. apply IH; auto.
Qed.

Lemma bytes_eqb_refl a : bytes_eqb a a = true.
Proof. apply bytes_eqb_eq; reflexivity. Qed.

(* ---------- release numbers: lexicographic with zero padding ---------- *)
Definition padz (l : list Z) (n : nat) : list Z := l ++ repeat 0 (n - length l).

Lemma list_lex_refl_Z short l : list_lex cmpZ short l l = 0.
Proof. induction l; simpl; auto. rewrite cmpZ_refl. simpl. auto. Qed.

Lemma cmp_zero_l_pad a : forall n, (length a <= n)%nat ->
  cmp_zero_l a = list_lex cmpZ 1 (padz a n) (repeat 0 n).
Proof.
  unfold padz. induction a as [|x a IH]; intros n Hn; simpl in *.
  - rewrite Nat.sub_0_r. symmetry. apply list_lex_refl_Z.
  - destruct n as [|n]; [lia|]. simpl. rewrite sgnZ_cmpZ. rewrite (IH n) by lia. reflexivity.
Qed.

Lemma cmp_zero_r_pad b : forall n, (length b <= n)%nat ->
  cmp_zero_r b = list_lex cmpZ 1 (repeat 0 n) (padz b n).
Proof.
  unfold padz. induction b as [|x b IH]; intros n Hn; simpl in *.
  - rewrite Nat.sub_0_r. symmetry. apply list_lex_refl_Z.
  - destruct n as [|n]; [lia|]. simpl. rewrite sgnZ_cmpZ. rewrite (IH n) by lia. reflexivity.
Qed.

Lemma compare_nums_pad a : forall b n, (length a <= n)%nat -> (length b <= n)%nat ->
  compare_nums a b = list_lex cmpZ 1 (padz a n) (padz b n).
Proof.
  induction a as [|x a IH]; intros [|y b] n Ha Hb.
  - unfold padz. simpl. symmetry. apply list_lex_refl_Z.
  - change (compare_nums [] (y :: b)) with (cmp_zero_r (y :: b)).
    rewrite (cmp_zero_r_pad (y :: b) n Hb). unfold padz at 2. simpl. rewrite Nat.sub_0_r. reflexivity.
  - change (compare_nums (x :: a) []) with (cmp_zero_l (x :: a)).
    rewrite (cmp_zero_l_pad (x :: a) n Ha). unfold padz at 3. simpl. rewrite Nat.sub_0_r. reflexivity.
  - destruct n as [|n]; [simpl in Ha; lia|]. simpl in Ha, Hb.
    unfold padz. simpl. rewrite sgnZ_cmpZ. fold (padz a n). fold (padz b n).
    rewrite (IH b n) by lia. reflexivity.
Qed.

Lemma compare_nums_core : cmp_core (fun _ => True) compare_nums.
Proof.
  pose proof (core_list_lex cmpZ 1 (fun _ => True) cmpZ_core ltac:(lia)) as [R S T C].
  split.
  - intros a _. rewrite (compare_nums_pad a a (length a)) by lia. apply R, Forall_True.
  - intros a b _ _. set (n := Nat.max (length a) (length b)).
    rewrite (compare_nums_pad a b n), (compare_nums_pad b a n) by lia.
    apply S; apply Forall_True.
  - intros a b x _ _ _. set (n := Nat.max (length a) (Nat.max (length b) (length x))).
    rewrite (compare_nums_pad a b n), (compare_nums_pad b x n), (compare_nums_pad a x n) by lia.
    apply T; apply Forall_True.
  - intros a b x _ _ _. set (n := Nat.max (length a) (Nat.max (length b) (length x))).
    rewrite (compare_nums_pad a b n), (compare_nums_pad b x n), (compare_nums_pad a x n) by lia.
    apply C; apply Forall_True.
Qed.

Lemma compare_nums_refl a : compare_nums a a = 0.
Proof. apply (cc_refl _ _ compare_nums_core); exact I. Qed.

(* ---------- one element of a local version ---------- *)
Definition b2z (b : bool) : Z := if b then 1 else 0.
Definition lec_kind (a b : bytes) : Z := cmpZ (b2z (all_digits a)) (b2z (all_digits b)).
Definition lec_val (a b : bytes) : Z :=
  cmpZ (if all_digits a then parse_uint_sat a else 0) (if all_digits b then parse_uint_sat b else 0).
Definition lec_str (a b : bytes) : Z :=
  bytes_compare (if all_digits a then [] else a) (if all_digits b then [] else b).

Lemma local_elem_compare_lex a b :
  local_elem_compare a b = lex lec_kind (lex lec_val lec_str) a b.
Proof.
  unfold local_elem_compare, lex, lec_kind, lec_val, lec_str.
  destruct (all_digits a), (all_digits b); simpl; try reflexivity.
  all: try (rewrite sgnZ_cmpZ; destruct (Z.eqb_spec (cmpZ (parse_uint_sat a) (parse_uint_sat b)) 0); auto).
  all: try (rewrite cmpZ_refl; reflexivity).
Qed.

Lemma local_elem_compare_core : cmp_core (fun _ => True) local_elem_compare.
Proof.
  eapply core_ext with (c := lex lec_kind (lex lec_val lec_str)).
  - intros; symmetry; apply local_elem_compare_lex.
  - apply core_lex; [|apply core_lex].
    + apply (core_pullback (fun a => b2z (all_digits a)) _ (fun _ => True) cmpZ); auto. apply cmpZ_core.
    + apply (core_pullback (fun a => if all_digits a then parse_uint_sat a else 0) _ (fun _ => True) cmpZ); auto.
      apply cmpZ_core.
    + apply (core_pullback (fun a : bytes => if all_digits a then [] else a) _ (fun _ => True) bytes_compare); auto.
      apply bytes_core.
Qed.

Lemma local_elem_compare_nil a : local_elem_compare a [] = 0 \/ local_elem_compare a [] = 1.
Proof.
  unfold local_elem_compare. change (all_digits []) with false.
  destruct (all_digits a); simpl; auto.
  destruct a; simpl; auto.
Qed.

(* ---------- splitting a local version at the dots ---------- *)
Definition ndots (s : bytes) : nat := length (filter (fun c => N.eqb c 46) s).

Fixpoint elems (n : nat) (s : bytes) : list bytes :=
  match n with
  | O => []
  | S n' => fst (local_elem s []) :: elems n' (snd (local_elem s []))
  end.

Definition split_dots (s : bytes) : list bytes := elems (S (ndots s)) s.

Lemma local_elem_acc s : forall acc,
  local_elem s acc = (rev acc ++ fst (local_elem s []), snd (local_elem s [])).
Proof.
  induction s as [|c t IH]; intros acc; simpl.
  - rewrite app_nil_r. reflexivity.
  - destruct (N.eqb c 46).
    + simpl. rewrite app_nil_r. reflexivity.
    + rewrite (IH (c :: acc)). rewrite (IH [c]). simpl. rewrite <- app_assoc. reflexivity.
Qed.

Lemma local_elem_nodot s : ndots s = O -> local_elem s [] = (s, []).
Proof.
  unfold ndots. induction s as [|c t IH]; simpl; intros H; auto.
  destruct (N.eqb c 46); simpl in H; [discriminate|].
  rewrite local_elem_acc. rewrite (IH H). reflexivity.
Qed.

Lemma local_elem_dot s : forall k, ndots s = S k -> ndots (snd (local_elem s [])) = k.
Proof.
  unfold ndots. induction s as [|c t IH]; simpl; intros k H; [discriminate|].
  destruct (N.eqb c 46); simpl in *.
  - congruence.
  - rewrite local_elem_acc. simpl. apply IH; auto.
Qed.

Lemma local_loop_nil n : forall pl, local_loop n pl [] = 0 \/ local_loop n pl [] = 1.
Proof.
  induction n as [|n IH]; intros pl; simpl; auto.
  destruct (local_elem pl []) as [pe pl'].
  destruct (local_elem_compare_nil pe) as [E|E]; rewrite E; simpl; auto.
Qed.

(* "the first non-zero result" *)
Definition nz (s d : Z) : Z := if negb (s =? 0) then s else d.

Lemma nz_assoc a b d : nz (nz a b) d = nz a (nz b d).
Proof. unfold nz. destruct (Z.eqb_spec a 0); subst; simpl; auto. destruct (Z.eqb_spec a 0); simpl; auto; lia. Qed.

Lemma nz_0 d : nz 0 d = d.
Proof. reflexivity. Qed.

Lemma list_lex_cons {A} (c : A -> A -> Z) sh x t1 y t2 :
  list_lex c sh (x :: t1) (y :: t2) = nz (c x y) (list_lex c sh t1 t2).
Proof. unfold nz. simpl. destruct (c x y =? 0); reflexivity. Qed.

Lemma local_loop_step n pl ql :
  local_loop (S n) pl ql =
  nz (local_elem_compare (fst (local_elem pl [])) (fst (local_elem ql [])))
     (local_loop n (snd (local_elem pl [])) (snd (local_elem ql []))).
Proof.
  unfold nz. simpl. destruct (local_elem pl []), (local_elem ql []). reflexivity.
Qed.

Lemma split_dots_nodot s : ndots s = O -> split_dots s = [s].
Proof. intros H. unfold split_dots. rewrite H. simpl. rewrite (local_elem_nodot s H). reflexivity. Qed.

Lemma split_dots_dot s k : ndots s = S k ->
  split_dots s = fst (local_elem s []) :: split_dots (snd (local_elem s [])).
Proof.
  intros H. unfold split_dots. rewrite H. rewrite (local_elem_dot s k H). reflexivity.
Qed.

Lemma split_dots_nonempty s : split_dots s <> [].
Proof. unfold split_dots. simpl. discriminate. Qed.

Lemma local_loop_spec m : forall pl ql d,
  ndots pl = m -> d = cmpZ (Z.of_nat (ndots pl)) (Z.of_nat (ndots ql)) ->
  nz (local_loop (S m) pl ql) d
  = list_lex local_elem_compare (-1) (split_dots pl) (split_dots ql).
Proof.
  induction m as [|m IH]; intros pl ql d Hm Hd; rewrite local_loop_step, nz_assoc.
  - rewrite (split_dots_nodot pl Hm). change (local_loop 0 (snd (local_elem pl [])) (snd (local_elem ql []))) with 0.
    rewrite nz_0. rewrite (local_elem_nodot pl Hm). simpl fst.
    destruct (ndots ql) as [|k] eqn:Hq.
    + rewrite (split_dots_nodot ql Hq). rewrite (local_elem_nodot ql Hq). simpl fst.
      rewrite list_lex_cons. simpl list_lex.
      rewrite Hm in Hd. subst d. reflexivity.
    + rewrite (split_dots_dot ql k Hq). rewrite list_lex_cons.
      assert (Hd' : d = -1) by (subst d; rewrite Hm; reflexivity).
      destruct (split_dots (snd (local_elem ql []))) eqn:Es.
      { exfalso; eapply split_dots_nonempty; eauto. }
      simpl list_lex. rewrite Hd'. reflexivity.
  - rewrite (split_dots_dot pl m Hm).
    destruct (ndots ql) as [|k] eqn:Hq.
    + rewrite (split_dots_nodot ql Hq). rewrite (local_elem_nodot ql Hq). simpl fst. simpl snd.
      rewrite list_lex_cons.
      assert (Hd' : d = 1) by (subst d; rewrite Hm; reflexivity).
      destruct (split_dots (snd (local_elem pl []))) eqn:Es.
      { exfalso; eapply split_dots_nonempty; eauto. }
      simpl list_lex. rewrite Hd'.
      destruct (local_loop_nil (S m) (snd (local_elem pl []))) as [L|L]; rewrite L; reflexivity.
    + rewrite (split_dots_dot ql k Hq). rewrite list_lex_cons.
      f_equal.
      apply (IH (snd (local_elem pl [])) (snd (local_elem ql [])) d).
      * apply (local_elem_dot pl m Hm).
      * rewrite (local_elem_dot pl m Hm), (local_elem_dot ql k Hq). subst d. rewrite Hm.
        unfold cmpZ. rewrite !Nat2Z.inj_succ. rewrite Zcompare_succ_compat. reflexivity.
Qed.

(* pep44CompareLocal is the lexicographic comparison of the dot-separated elements,
   a proper prefix first. *)
Lemma local_compare_list_lex pl ql :
  local_compare pl ql = list_lex local_elem_compare (-1) (split_dots pl) (split_dots ql).
Proof.
  unfold local_compare.
  destruct (bytes_eqb pl ql) eqn:E.
  - apply bytes_eqb_eq in E. subst ql. symmetry.
    apply (cc_refl _ _ (core_list_lex local_elem_compare (-1) (fun _ => True) local_elem_compare_core ltac:(lia))).
    apply Forall_True.
  - unfold count_dots. fold (ndots pl). fold (ndots ql).
    replace (Z.to_nat (Z.of_nat (ndots pl) + 1)) with (S (ndots pl)) by lia.
    fold (nz (local_loop (S (ndots pl)) pl ql) (sgnZ (Z.of_nat (ndots pl) + 1) (Z.of_nat (ndots ql) + 1))).
    apply local_loop_spec; auto.
    unfold sgnZ, cmpZ.
    destruct (Z.compare_spec (Z.of_nat (ndots pl) + 1) (Z.of_nat (ndots ql) + 1)),
             (Z.compare_spec (Z.of_nat (ndots pl)) (Z.of_nat (ndots ql))); try reflexivity; lia.
Qed.

Lemma local_compare_core : cmp_core (fun _ => True) local_compare.
Proof.
  eapply core_ext with (c := fun a b => list_lex local_elem_compare (-1) (split_dots a) (split_dots b)).
  - intros; symmetry; apply local_compare_list_lex.
  - apply (core_pullback split_dots (fun _ => True) (Forall (fun _ => True))
             (list_lex local_elem_compare (-1))).
    + intros; apply Forall_True.
    + apply core_list_lex; [apply local_elem_compare_core | lia].
Qed.

Lemma local_compare_refl a : local_compare a a = 0.
Proof. unfold local_compare. rewrite bytes_eqb_refl. reflexivity. Qed.

(* ---------- the whole comparator ---------- *)
Definition dflt (e : option pep440) : pep440 := match e with Some x => x | None => zero_pep440 end.
Definition is_pre_rank (r : Z) : bool := (r =? rk_alpha) || (r =? rk_beta) || (r =? rk_prerelease).
Definition k_prenum (p : pep440) : Z := if is_pre_rank (pep_rank p) then p_prenum p else 0.
Definition k_local (p : pep440) : bytes :=
  if is_pre_rank (pep_rank p) || (pep_rank p =? rk_local) then p_local p else [].
Definition k_postnum (p : pep440) : Z :=
  if is_pre_rank (pep_rank p) || (pep_rank p =? rk_local) || (pep_rank p =? rk_post) then p_postnum p else 0.
Definition k_dev (p : pep440) : option Z := if p_dev p then Some (p_devnum p) else None.

Definition pver := (list Z * option pep440)%type.
Definition c_epoch (a b : pver) : Z := cmpZ (p_epoch (dflt (snd a))) (p_epoch (dflt (snd b))).
Definition c_nums (a b : pver) : Z := compare_nums (fst a) (fst b).
Definition c_rank (a b : pver) : Z := cmpZ (pep_rank (dflt (snd a))) (pep_rank (dflt (snd b))).
Definition c_prenum (a b : pver) : Z := cmpZ (k_prenum (dflt (snd a))) (k_prenum (dflt (snd b))).
Definition c_local (a b : pver) : Z := local_compare (k_local (dflt (snd a))) (k_local (dflt (snd b))).
Definition c_post (a b : pver) : Z := cmpZ (k_postnum (dflt (snd a))) (k_postnum (dflt (snd b))).
Definition c_dev (a b : pver) : Z := opt_cmp cmpZ 1 (k_dev (dflt (snd a))) (k_dev (dflt (snd b))).

Definition pypi_cmp (a b : pver) : Z := pep_compare (fst a) (fst b) (snd a) (snd b).

Definition pypi_lex : pver -> pver -> Z :=
  lex c_epoch (lex c_nums (lex c_rank (lex c_prenum (lex c_local (lex c_post c_dev))))).

Lemma tail_lex r p q : pep_rank p = r -> pep_rank q = r ->
  pep_tail_compare r p q =
  nz (cmpZ (k_prenum p) (k_prenum q))
     (nz (local_compare (k_local p) (k_local q))
         (nz (cmpZ (k_postnum p) (k_postnum q))
             (opt_cmp cmpZ 1 (k_dev p) (k_dev q)))).
Proof.
  intros Hp Hq. unfold pep_tail_compare, k_prenum, k_local, k_postnum, k_dev, nz.
  rewrite Hp, Hq. fold (is_pre_rank r).
  rewrite !sgnZ_cmpZ.
  destruct (is_pre_rank r); simpl orb.
  - destruct (p_dev p), (p_dev q); reflexivity.
  - rewrite cmpZ_refl. simpl negb. cbv iota.
    destruct (r =? rk_local); simpl orb.
    + destruct (p_dev p), (p_dev q); reflexivity.
    + rewrite local_compare_refl. simpl negb. cbv iota.
      destruct (r =? rk_post).
      * destruct (p_dev p), (p_dev q); reflexivity.
      * rewrite cmpZ_refl. simpl negb. cbv iota.
        destruct (p_dev p), (p_dev q); reflexivity.
Qed.

Lemma lex_nz {A} (c1 c2 : A -> A -> Z) a b : lex c1 c2 a b = nz (c1 a b) (c2 a b).
Proof. unfold lex, nz. destruct (c1 a b =? 0); reflexivity. Qed.

Lemma pypi_cmp_lex a b : pypi_cmp a b = pypi_lex a b.
Proof.
  destruct a as [na pe], b as [nb qe].
  unfold pypi_cmp, pypi_lex. rewrite !lex_nz. simpl fst. simpl snd.
  unfold c_epoch, c_nums, c_rank, c_prenum, c_local, c_post, c_dev. simpl fst. simpl snd.
  unfold pep_compare. fold (dflt pe). fold (dflt qe).
  rewrite sgnZ_cmpZ. unfold nz at 1. rewrite cmpZ_eqb.
  destruct (p_epoch (dflt pe) =? p_epoch (dflt qe)); simpl negb; cbv iota; [|reflexivity].
  unfold nz at 1.
  destruct (compare_nums na nb =? 0); simpl negb; cbv iota; [|reflexivity].
  assert (G : (let pr := pep_rank (dflt pe) in
               let qr := pep_rank (dflt qe) in
               if negb (pr =? qr) then sgnZ pr qr else pep_tail_compare pr (dflt pe) (dflt qe)) =
              nz (cmpZ (pep_rank (dflt pe)) (pep_rank (dflt qe)))
                 (nz (cmpZ (k_prenum (dflt pe)) (k_prenum (dflt qe)))
                     (nz (local_compare (k_local (dflt pe)) (k_local (dflt qe)))
                         (nz (cmpZ (k_postnum (dflt pe)) (k_postnum (dflt qe)))
                             (opt_cmp cmpZ 1 (k_dev (dflt pe)) (k_dev (dflt qe))))))).
  { cbv zeta. unfold nz at 1. rewrite cmpZ_eqb. rewrite sgnZ_cmpZ.
    destruct (Z.eqb_spec (pep_rank (dflt pe)) (pep_rank (dflt qe))) as [E|E]; simpl negb; cbv iota; [|reflexivity].
    apply tail_lex; auto. }
  destruct pe, qe; exact G.
Qed.

Lemma pypi_cmp_core : cmp_core (fun _ => True) pypi_cmp.
Proof.
  eapply core_ext with (c := pypi_lex).
  - intros; symmetry; apply pypi_cmp_lex.
  - unfold pypi_lex.
    repeat apply core_lex.
    + apply (core_pullback (fun a : pver => p_epoch (dflt (snd a))) _ (fun _ => True) cmpZ); auto. apply cmpZ_core.
    + apply (core_pullback (fun a : pver => fst a) _ (fun _ => True) compare_nums); auto. apply compare_nums_core.
    + apply (core_pullback (fun a : pver => pep_rank (dflt (snd a))) _ (fun _ => True) cmpZ); auto. apply cmpZ_core.
    + apply (core_pullback (fun a : pver => k_prenum (dflt (snd a))) _ (fun _ => True) cmpZ); auto. apply cmpZ_core.
    + apply (core_pullback (fun a : pver => k_local (dflt (snd a))) _ (fun _ => True) local_compare); auto.
      apply local_compare_core.
    + apply (core_pullback (fun a : pver => k_postnum (dflt (snd a))) _ (fun _ => True) cmpZ); auto. apply cmpZ_core.
    + apply (core_pullback (fun a : pver => k_dev (dflt (snd a))) _ (opt_P (fun _ => True)) (opt_cmp cmpZ 1)).
      * intros a _. destruct (k_dev (dflt (snd a))); exact I.
      * apply core_opt; [apply cmpZ_core | lia].
Qed.

(* The PyPI comparator is a total preorder on all inputs. *)
Lemma pypi_cmp_laws : cmp_laws (fun _ => True) pypi_cmp.
Proof. apply core_laws, pypi_cmp_core. Qed.
