(* C11: a BOOLEAN form of the hypothesis span_ok of the round-trip theorem, so that the harness
   can count how many generated sets lie inside the region where the theorem speaks, and treat a
   failed round trip inside it as a contradiction between model and proof.
   reparses (a Prop with two quantifiers over all versions) is replaced by a sufficient check on
   the fields that compare and canon read (lemma reparses_fields). *)
From Coq Require Import List ZArith Bool.
From DepsDev Require Import Lib.Base Semver.Version Semver.Compare Semver.Span Semver.Interval Semver.Set Semver.Constraint
     Semver.C11_proofs Semver.C11_witness.
Import ListNotations.
Local Open Scope Z_scope.

Fixpoint leqb {A} (e : A -> A -> bool) (a b : list A) : bool :=
  match a, b with
  | [], [] => true
  | x :: a', y :: b' => e x y && leqb e a' b'
  | _, _ => false
  end.

Lemma leqb_eq {A} (e : A -> A -> bool) : (forall x y, e x y = true -> x = y) ->
  forall a b, leqb e a b = true -> a = b.
Proof.
  intros He. induction a as [|x a IH]; destruct b as [|y b]; simpl; intros H; try discriminate; auto.
  apply andb_prop in H. destruct H as [H1 H2]. rewrite (He _ _ H1), (IH _ H2). reflexivity.
Qed.

Lemma beqb_eq : forall a b, bytes_eqb a b = true -> a = b.
Proof.
  induction a as [|x a IH]; destruct b as [|y b]; simpl; intros H; try discriminate; auto.
  apply andb_prop in H. destruct H as [H1 H2]. apply N.eqb_eq in H1. rewrite H1, (IH _ H2). reflexivity.
Qed.

Lemma seqb_eq a b : sys_eqb a b = true -> a = b.
Proof. destruct a, b; simpl; intros H; try discriminate; reflexivity. Qed.

Definition noext_b (v : version) : bool := match v_ext v with NoExt => true | _ => false end.

Lemma noext_b_spec v : noext_b v = true -> v_ext v = NoExt.
Proof. unfold noext_b. destruct (v_ext v); intros H; try discriminate; reflexivity. Qed.

(* the answer of the parser is a version without error that agrees with v in system, numbers,
   prerelease elements and canonical text, and neither carries an extension object *)
Definition reparses_b (r : res parse_out) (v : version) : option version :=
  match r with
  | Ok po =>
      match po_v po, po_err po with
      | Some v', false =>
          if bytes_eqb (canon false v') (canon false v) && sys_eqb (v_sys v') (v_sys v)
             && noext_b v' && noext_b v && leqb Z.eqb (v_num v') (v_num v) && leqb bytes_eqb (v_pre v') (v_pre v)
          then Some v' else None
      | _, _ => None
      end
  | _ => None
  end.

Lemma reparses_b_sound r v v' : reparses_b r v = Some v' -> reparses r v v'.
Proof.
  unfold reparses_b. destruct r as [po| | |]; try discriminate.
  destruct po as [pov poe]. simpl. destruct pov as [w|]; try discriminate. destruct poe; try discriminate.
  destruct (bytes_eqb (canon false w) (canon false v) && sys_eqb (v_sys w) (v_sys v)
            && noext_b w && noext_b v && leqb Z.eqb (v_num w) (v_num v) && leqb bytes_eqb (v_pre w) (v_pre v)) eqn:E;
    try discriminate.
  intros H. injection H as <-.
  do 5 (apply andb_prop in E; destruct E as [E ?]).
  apply reparses_fields.
  - reflexivity.
  - apply beqb_eq; assumption.
  - apply seqb_eq; assumption.
  - apply noext_b_spec; assumption.
  - apply noext_b_spec; assumption.
  - apply (leqb_eq Z.eqb); [intros x y Hx; apply Z.eqb_eq; exact Hx | assumption].
  - apply (leqb_eq bytes_eqb); [exact beqb_eq | assumption].
Qed.

Section Region.
Variable pv : system -> bool -> bytes -> res parse_out.
Variable S : system.

Definition span_ok_b (s : span) : option span :=
  match sp_rank s with
  | REmpty => Some empty_span
  | RUnit =>
      match sp_min s with
      | Some v =>
          if clean_b (canon false v) then
            match reparses_b (parse_public pv S (canon false v)) v with
            | Some v' => Some (unit_span v')
            | None => None
            end
          else None
      | None => None
      end
  | RVector =>
      match sp_min s, sp_max s with
      | Some mn, Some mx =>
          if clean_b (canon false mn) && clean_b (canon false mx) then
            match reparses_b (pv S false (canon false mn)) mn, reparses_b (pv S true (canon false mx)) mx with
            | Some mn', Some mx' =>
                Some {| sp_rank := RVector; sp_min_open := sp_min_open s; sp_max_open := sp_max_open s;
                        sp_min := Some mn'; sp_max := Some mx' |}
            | _, _ => None
            end
          else None
      | _, _ => None
      end
  end.

Lemma span_ok_b_sound s s' : span_ok_b s = Some s' -> span_ok pv S s s'.
Proof.
  unfold span_ok_b, span_ok. destruct (sp_rank s).
  - intros H. injection H as <-. reflexivity.
  - destruct (sp_min s) as [v|]; try discriminate.
    destruct (clean_b (canon false v)) eqn:C; try discriminate.
    destruct (reparses_b (parse_public pv S (canon false v)) v) as [v'|] eqn:R; try discriminate.
    intros H. injection H as <-. exists v, v'. repeat split; auto.
    all: apply reparses_b_sound in R; destruct R as (R1 & R2 & R3 & R4); auto.
  - destruct (sp_min s) as [mn|]; try discriminate. destruct (sp_max s) as [mx|]; try discriminate.
    destruct (clean_b (canon false mn) && clean_b (canon false mx)) eqn:C; try discriminate.
    apply andb_prop in C. destruct C as [C1 C2].
    destruct (reparses_b (pv S false (canon false mn)) mn) as [mn'|] eqn:R1; try discriminate.
    destruct (reparses_b (pv S true (canon false mx)) mx) as [mx'|] eqn:R2; try discriminate.
    intros H. injection H as <-. exists mn, mx, mn', mx'.
    apply reparses_b_sound in R1. apply reparses_b_sound in R2.
    split; [reflexivity|]. split; [reflexivity|]. split; [exact C1|]. split; [exact C2|].
    split; [exact R1|]. split; [exact R2|]. reflexivity.
Qed.

Fixpoint set_ok_b (l : list span) : option (list span) :=
  match l with
  | [] => Some []
  | s :: t =>
      match span_ok_b s, set_ok_b t with
      | Some s', Some t' => Some (s' :: t')
      | _, _ => None
      end
  end.

Lemma set_ok_b_sound : forall l l', set_ok_b l = Some l' -> Forall2 (span_ok pv S) l l'.
Proof.
  induction l as [|s t IH]; simpl; intros l' H.
  - injection H as <-. constructor.
  - destruct (span_ok_b s) as [s'|] eqn:E1; try discriminate.
    destruct (set_ok_b t) as [t'|] eqn:E2; try discriminate.
    injection H as <-. constructor; [apply span_ok_b_sound; exact E1 | apply IH; reflexivity].
Qed.

(* the round trip for every set that passes the boolean check *)
Theorem set_round_trip_checked (c : constraint) (l' : list span) :
  set_span (c_set c) <> [] -> set_ok_b (set_span (c_set c)) = Some l' ->
  exists str c', set_string (c_set c) = Ok str /\ parse_set_constraint pv S str = Ok c' /\
    set_string (c_set c') = Ok str /\
    forall v, sys_eqb (v_sys v) SPyPI = false -> match_version_prerelease c' v = match_version_prerelease c v.
Proof. intros Hne H. apply (set_round_trip pv S c l' Hne). apply set_ok_b_sound. exact H. Qed.

Definition c11_region (st : set) : bool :=
  match set_span st with
  | [] => false
  | l => match set_ok_b l with Some _ => true | None => false end
  end.
End Region.
