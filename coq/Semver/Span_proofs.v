(* Denotation of spans and sets for the systems without extension (Default, NPM, Cargo, Go, NuGet),
   and the reduction of span.contains / Set.matchVersion to it.

   in_span true  s v : v lies between the bounds, respecting open/closed ends (interval matching)
   in_span false s v : the same plus the prerelease admission rule of span.contains            *)
From Coq Require Import Lia.
From DepsDev Require Import Lib.Base Lib.Order Semver.Version Semver.Maven Semver.Gem Semver.Pep440 Semver.Compare
     Semver.Generic_proofs Semver.Compare_proofs Semver.Span Semver.Interval Semver.Set.
Local Open Scope Z_scope.

Section Fam.
Variable S : system.
Notation gc := (generic_compare S).
Notation fam := (fam_version S).

(* ---------------------------------------------------------------- order facts *)
Lemma gc_refl a : gc a a = 0.
Proof. apply (cl_refl _ _ (generic_compare_laws S)); exact I. Qed.
Lemma gc_antisym a b : Z.sgn (gc a b) = - Z.sgn (gc b a).
Proof. apply (cl_antisym _ _ (generic_compare_laws S)); exact I. Qed.
Lemma gc_trans a b c : gc a b <= 0 -> gc b c <= 0 -> gc a c <= 0.
Proof. apply (cl_trans _ _ (generic_compare_laws S)); exact I. Qed.
Lemma gc_congr a b c : gc a b = 0 -> Z.sgn (gc a c) = Z.sgn (gc b c).
Proof. apply (cl_congr _ _ (generic_compare_laws S)); exact I. Qed.
Lemma gc_congr_r a b c : gc a b = 0 -> Z.sgn (gc c a) = Z.sgn (gc c b).
Proof.
  intros E. pose proof (gc_congr a b c E). pose proof (gc_antisym a c). pose proof (gc_antisym b c). lia.
Qed.
Lemma gc_lt_le_trans a b c : gc a b < 0 -> gc b c <= 0 -> gc a c < 0.
Proof.
  intros H1 H2.
  assert (L : gc a c <= 0) by (apply (gc_trans a b c); lia).
  destruct (Z.eq_dec (gc a c) 0) as [E|E]; [|lia].
  (* a ~ c, so c <= b <= c ... contradiction with a < b *)
  assert (gc c a = 0) by (pose proof (gc_antisym a c); lia).
  assert (gc b a <= 0) by (apply (gc_trans b c a); lia).
  pose proof (gc_antisym a b). lia.
Qed.
Lemma gc_le_lt_trans a b c : gc a b <= 0 -> gc b c < 0 -> gc a c < 0.
Proof.
  intros H1 H2.
  assert (L : gc a c <= 0) by (apply (gc_trans a b c); lia).
  destruct (Z.eq_dec (gc a c) 0) as [E|E]; [|lia].
  assert (gc c a = 0) by (pose proof (gc_antisym a c); lia).
  assert (gc c b <= 0) by (apply (gc_trans c a b); lia).
  pose proof (gc_antisym b c). lia.
Qed.
Lemma gc_flip_le a b : gc a b <= 0 <-> 0 <= gc b a.
Proof. pose proof (gc_antisym a b). lia. Qed.
Lemma gc_flip_lt a b : gc a b < 0 <-> 0 < gc b a.
Proof. pose proof (gc_antisym a b). lia. Qed.
Lemma gc_flip_eq a b : gc a b = 0 <-> gc b a = 0.
Proof. pose proof (gc_antisym a b). lia. Qed.

(* ---------------------------------------------------------------- denotation *)
Definition lower_ok (mn : version) (mo : bool) (v : version) : bool :=
  let c := gc v mn in negb (((c =? 0) && mo) || (c <? 0)).
Definition upper_ok (mx : version) (xo : bool) (v : version) : bool :=
  let c := gc mx v in negb (((c =? 0) && xo) || (c <? 0)).

(* the prerelease admission rule of span.contains *)
Definition admits (mn mx v : version) : bool :=
  if v_is_prerelease v then
    (v_is_prerelease mn && equal_values (v_num v) (v_num mn) && (gc mn v <=? 0))
    || (v_is_prerelease mx && equal_values (v_num v) (v_num mx))
  else true.

Definition in_span (incl : bool) (s : span) (v : version) : bool :=
  match sp_rank s, sp_min s, sp_max s with
  | RUnit, Some mn, _ => gc mn v =? 0
  | RVector, Some mn, Some mx =>
      lower_ok mn (sp_min_open s) v && upper_ok mx (sp_max_open s) v && (incl || admits mn mx v)
  | _, _, _ => false
  end.

Definition in_spans (incl : bool) (l : list span) (v : version) : bool := existsb (fun s => in_span incl s v) l.

(* a span whose bounds (when it is not empty) are present and belong to the family *)
Definition fam_span (s : span) : Prop :=
  match sp_rank s with
  | REmpty => True
  | _ => exists mn mx, sp_min s = Some mn /\ sp_max s = Some mx /\ fam mn /\ fam mx
  end.

Lemma lower_ok_le mn v : lower_ok mn false v = true <-> gc mn v <= 0.
Proof.
  unfold lower_ok. rewrite andb_false_r. simpl. rewrite negb_true_iff, Z.ltb_ge. symmetry. apply gc_flip_le.
Qed.
Lemma lower_ok_lt mn v : lower_ok mn true v = true <-> gc mn v < 0.
Proof.
  unfold lower_ok. rewrite andb_true_r, negb_true_iff, orb_false_iff, Z.eqb_neq, Z.ltb_ge.
  pose proof (gc_antisym mn v). lia.
Qed.
Lemma upper_ok_le mx v : upper_ok mx false v = true <-> gc v mx <= 0.
Proof.
  unfold upper_ok. rewrite andb_false_r. simpl. rewrite negb_true_iff, Z.ltb_ge. symmetry. apply gc_flip_le.
Qed.
Lemma upper_ok_lt mx v : upper_ok mx true v = true <-> gc v mx < 0.
Proof.
  unfold upper_ok. rewrite andb_true_r, negb_true_iff, orb_false_iff, Z.eqb_neq, Z.ltb_ge.
  pose proof (gc_antisym mx v). lia.
Qed.

(* ---------------------------------------------------------------- span.contains *)
Hypothesis not_maven : sys_eqb S SMaven = false.

Lemma span_contains_red s v incl : fam_span s -> fam v ->
  span_contains s v incl = Ok (in_span incl s v).
Proof.
  intros Hs Hv. unfold span_contains, in_span, fam_span in *.
  destruct (sp_rank s) eqn:R.
  - reflexivity.
  - destruct Hs as (mn & mx & Emn & Emx & Fmn & Fmx). rewrite Emn. simpl.
    rewrite (compare_family S) by auto. reflexivity.
  - destruct Hs as (mn & mx & Emn & Emx & Fmn & Fmx). rewrite Emn, Emx. simpl.
    rewrite (compare_family S) by auto. simpl.
    unfold lower_ok, upper_ok.
    destruct (((gc v mn =? 0) && sp_min_open s) || (gc v mn <? 0)); simpl; [reflexivity|].
    rewrite (compare_family S) by auto. simpl.
    destruct (((gc mx v =? 0) && sp_max_open s) || (gc mx v <? 0)); simpl; [reflexivity|].
    destruct incl; simpl; [reflexivity|].
    destruct Hv as (Sv & Ev). rewrite Sv, not_maven. simpl. unfold admits.
    destruct (v_is_prerelease v); simpl; [|reflexivity].
    destruct (v_is_prerelease mn && equal_values (v_num v) (v_num mn)) eqn:E1; simpl.
    + rewrite (compare_family S) by (auto; split; auto). simpl.
      destruct (gc mn v <=? 0); simpl; [reflexivity|].
      destruct (v_is_prerelease mx && equal_values (v_num v) (v_num mx)); reflexivity.
    + destruct (v_is_prerelease mx && equal_values (v_num v) (v_num mx)); reflexivity.
Qed.

(* ---------------------------------------------------------------- matchVersion *)
(* systems for which matchVersion has no special case *)
Hypothesis not_pypi : sys_eqb S SPyPI = false.
Hypothesis not_nuget : sys_eqb S SNuGet = false.
Hypothesis not_gem : sys_eqb S SRubyGems = false.

Lemma match_span_red s v incl : fam_span s -> fam v -> match_span v incl s = Ok (in_span incl s v).
Proof.
  intros Hs Hv. unfold match_span. destruct Hv as (Sv & Ev). rewrite Sv, not_pypi, not_nuget. simpl.
  apply span_contains_red; auto. split; auto.
Qed.

Lemma match_spans_red l v incl : Forall fam_span l -> fam v ->
  match_spans v incl l = Ok (in_spans incl l v).
Proof.
  intros Hl Hv. induction Hl as [|s l Hs Hl IH]; simpl; [reflexivity|].
  rewrite match_span_red by auto. simpl. destruct (in_span incl s v); simpl; auto.
Qed.

Lemma set_match_red st v incl : set_span st <> [] -> Forall fam_span (set_span st) -> fam v ->
  set_match_version st v incl = Ok (in_spans incl (set_span st) v).
Proof.
  intros Hne Hl Hv. unfold set_match_version. destruct (set_span st) eqn:E; [congruence|].
  destruct Hv as (Sv & Ev). rewrite Sv, not_gem. apply match_spans_red; auto. split; auto.
Qed.

(* a release version is matched alike under both modes *)
Lemma in_span_release s v : v_is_prerelease v = false -> in_span false s v = in_span true s v.
Proof.
  intros R. unfold in_span, admits. rewrite R.
  destruct (sp_rank s), (sp_min s), (sp_max s); simpl; auto; rewrite ?andb_true_r; reflexivity.
Qed.
Lemma in_spans_release l v : v_is_prerelease v = false -> in_spans false l v = in_spans true l v.
Proof.
  intros R. unfold in_spans. induction l; simpl; auto. rewrite in_span_release by auto. congruence.
Qed.

End Fam.

(* ---------------------------------------------------------------- Empty (every system) *)
Lemma match_span_empty v incl s : rank_is_empty (sp_rank s) = true -> match_span v incl s = Ok false.
Proof.
  intros R. unfold match_span. destruct (sp_rank s) eqn:R0; try discriminate. simpl.
  rewrite andb_false_r. simpl.
  destruct (sys_eqb (v_sys v) SNuGet && negb incl && v_is_prerelease v); simpl.
  - destruct (negb (opt_is_prerelease (sp_min s)) && negb (opt_is_prerelease (sp_max s))); simpl; [reflexivity|].
    unfold span_contains. rewrite R0. reflexivity.
  - unfold span_contains. rewrite R0. reflexivity.
Qed.
