(* Model of util/semver/interval.go: value.inc, Version.inc, opVersionToSpan,
   rebuildExtension, excludeToSpans.  Definitions only.

   The version parser is not modelled here: it enters as the Section variable parse_version
   (System.parse with its allowInfinity flag).  Its result keeps the partially built Version
   that Go returns together with an error for Maven and PyPI. *)
From DepsDev Require Import Lib.Base Semver.Version Semver.Maven Semver.Gem Semver.Pep440 Semver.Compare
     Semver.Span Gen.SemverTables.
Local Open Scope Z_scope.

(* what System.parse returns: a Version pointer and an error *)
Record parse_out := { po_v : option version; po_err : bool }.

(* ---------------------------------------------------------------- value.inc *)
(* v++ on an int64 wraps; the test v > infinity can therefore never succeed *)
Definition wrap64 (z : Z) : Z := (z + 9223372036854775808) mod 18446744073709551616 - 9223372036854775808.
Definition value_inc (v : Z) : Z :=
  let v1 := wrap64 (v + 1) in
  if infinity <? v1 then infinity else v1.

(* incN: v.setNum(n, v.num[n].inc()) *)
Definition inc_n (v : version) (n : nat) : res version :=
  x <- idx (v_num v) n;; Ok (set_num v n (value_inc x)).

Definition is_wild_or_inf (z : Z) : bool := (z =? wildcard) || (z =? infinity).

Fixpoint find_wild_or_inf (l : list Z) (i : nat) : option nat :=
  match l with
  | [] => None
  | x :: t => if is_wild_or_inf x then Some i else find_wild_or_inf t (S i)
  end.

(* positions i .. len-1 set to 0 *)
Fixpoint zero_from (l : list Z) (i : nat) : list Z :=
  match l, i with
  | [], _ => []
  | x :: t, S i' => x :: zero_from t i'
  | _ :: t, O => 0 :: zero_from t O
  end.

(* Version.inc *)
Definition version_inc (v : version) : res version :=
  if has_pre v then Err E_inc else
  match length (v_num v) with
  | O => Err E_inc
  | 1%nat =>
      if is_wild_or_inf (major v) then Ok (set_patch (set_minor (set_major v infinity) infinity) infinity)
      else inc_n v 0
  | 2%nat =>
      if is_wild_or_inf (minor v) then v1 <- inc_n v 0;; Ok (set_patch (set_minor v1 0) 0)
      else inc_n v 1
  | _ =>
      match find_wild_or_inf (v_num v) 0 with
      | None => inc_n v (length (v_num v) - 1)
      | Some O => Ok v
      | Some (S k) => v1 <- inc_n v k;; Ok (vset_num v1 (zero_from (v_num v1) (S k)))
      end
  end.

Section WithParser.
Variable parse_version : system -> bool -> bytes -> res parse_out.

(* ---------------------------------------------------------------- rebuildExtension *)
Definition pep440_is_zero (p : pep440) : bool :=
  (p_epoch p =? 0) && bytes_eqb (p_pre p) [] && (p_prenum p =? 0) && negb (p_post p) && (p_postnum p =? 0)
  && negb (p_dev p) && (p_devnum p =? 0) && bytes_eqb (p_local p) [].

Definition ext_empty (e : extension) : bool :=
  match e with
  | NoExt => true
  | MavenExt l => match l with [] => true | _ => false end
  | Pep440Ext None => true
  | Pep440Ext (Some p) => pep440_is_zero p
  | GemExt l => match l with [] => true | _ => false end
  end.

(* v.ext, err = v.newExtension(v.Canon(true)): the extension is parsed again from the
   canonical text.  For PyPI this also rewrites num, userNumCount and pre (newPEP440Extension
   resets them and init fills them again) and may set isPrerelease; for Maven it may set
   isPrerelease.  RubyGems re-parses only the prerelease part: the table is asked with
   allowInfinity so that the numbers of a bound do not make the lookup fail. *)
Definition rebuild_extension (v : version) : res version :=
  if ext_empty (v_ext v) then Ok v else
  let sys := v_sys v in
  po <- parse_version sys (sys_eqb sys SRubyGems) (canon true v);;
  if po_err po then Err E_parse else
  match po_v po with
  | None => Panic PNilDeref
  | Some r =>
      let isp := v_is_prerelease v || v_is_prerelease r in
      if sys_eqb sys SPyPI then
        Ok {| v_sys := sys; v_user_num_count := v_user_num_count r; v_is_prerelease := isp; v_str := v_str v;
              v_num := v_num r; v_pre := v_pre r; v_build := v_build v; v_ext := v_ext r |}
      else if sys_eqb sys SMaven then
        Ok {| v_sys := sys; v_user_num_count := v_user_num_count v; v_is_prerelease := isp; v_str := v_str v;
              v_num := v_num v; v_pre := v_pre v; v_build := v_build v; v_ext := v_ext r |}
      else Ok (vset_ext v (v_ext r))
  end.

(* ---------------------------------------------------------------- opVersionToSpan *)
Definition is_rubygems_or_pypi (s : system) : bool := sys_eqb s SRubyGems || sys_eqb s SPyPI.
Definition needs_rebuild (s : system) : bool := sys_eqb s SMaven || sys_eqb s SRubyGems || sys_eqb s SPyPI.

(* the code after the switch *)
Definition op_tail (lo : version) (min_open : bool) (hi : version) (max_open : bool) : res span :=
  let lo1 := set_tail lo infinity infinity in
  let hi1 := set_tail hi infinity infinity in
  if needs_rebuild (v_sys lo1) then
    lo2 <- rebuild_extension lo1;;
    hi2 <- rebuild_extension hi1;;
    new_span lo2 min_open hi2 max_open
  else new_span lo1 min_open hi1 max_open.

Fixpoint last_opt {A} (l : list A) : option A :=
  match l with [] => None | [x] => Some x | _ :: t => last_opt t end.

(* NuGet floating prerelease: the last prerelease element loses a trailing asterisk *)
Definition nuget_strip_star (pre : list bytes) : res (list bytes * bool) :=
  match last_opt pre with
  | None => Panic PIndex
  | Some p =>
      match last_opt p with
      | None => Panic PIndex                       (* p[len(p)-1] on an empty string *)
      | Some c =>
          let '(p1, w) := if N.eqb c 42 then (removelast p, true) else (p, false) in
          let p2 := match p1 with [] => [48%N] | _ => p1 end in
          Ok (removelast pre ++ [p2], w)
      end
  end.

(* case tokGreaterEqual (also reached by fallthrough from tokGreater) *)
Definition op_ge (lo : version) (min_open : bool) (hi : version) : res span :=
  r <- (if sys_eqb (v_sys lo) SNuGet && has_pre lo
        then x <- nuget_strip_star (v_pre lo);; Ok (vset_pre lo (fst x), snd x)
        else Ok (lo, false));;
  let '(lo1, wild) := r in
  let hi1 := clear_pre (vset_num hi (map (fun _ => infinity) (v_num hi))) in
  if sys_eqb (v_sys lo1) SNuGet && (is_wildcard_v lo1 || wild) then new_span lo1 false hi1 true
  else op_tail lo1 min_open (vset_build hi1 []) false.

Definition caret_hi3 (hi : version) : version :=
  clear_pre (set_patch (set_minor hi infinity) infinity).

Definition op_version_to_span (typ : Z) (lo0 : version) : res span :=
  let lo := if is_wildcard_v lo0 && negb (sys_eqb (v_sys lo0) SNuGet) then clear_pre lo0 else lo0 in
  let sys := v_sys lo in
  let n := length (v_num lo) in
  if negb (sys_eqb sys SCargo) && (n <? 3)%nat && has_pre lo then Err E_pre3 else
  let is_eq := (typ =? go_tokEmpty) || (typ =? go_tokEqual) in
  if is_eq && (3 <=? n)%nat && negb (is_wildcard_v lo) then new_span_same lo false false else
  let hi := lo in
  if is_eq then
    let hi1 := match n with
               | 1%nat => set_patch (set_minor hi infinity) infinity
               | 2%nat => set_patch hi infinity
               | _ => hi
               end in
    new_span lo false hi1 false
  else if typ =? go_tokGreater then
    if all_v lo wildcard then Ok empty_span else
    r <- (if has_pre lo || is_rubygems_or_pypi sys then Ok (lo, true)
          else lo1 <- version_inc lo;; Ok (lo1, false));;
    let '(lo1, min_open) := r in
    op_ge (vset_build lo1 []) min_open hi
  else if typ =? go_tokGreaterEqual then op_ge lo false hi
  else if typ =? go_tokLess then
    if all_v lo wildcard || all_v lo 0 then Ok empty_span else
    let hi1 := vset_build (vset_num hi (map (fun x => if x =? wildcard then 0 else x) (v_num hi))) [] in
    op_tail (min_version sys lo) false hi1 true
  else if typ =? go_tokLessEqual then
    let hi1 := match n with
               | 1%nat => set_patch (set_minor hi infinity) infinity
               | 2%nat => set_patch hi infinity
               | _ => hi
               end in
    op_tail (min_version sys lo) false hi1 false
  else if typ =? go_tokCaret then
    if (n =? 2)%nat && (major lo =? 0) && (minor lo =? 0) then
      new_span lo false (clear_pre (set_patch hi infinity)) false
    else if (major lo =? 0) && (2 <=? n)%nat then
      new_span lo false (clear_pre (if negb (minor lo =? 0) then set_patch hi infinity else hi)) false
    else if major lo =? wildcard then
      new_span (min_version sys lo) false (clear_pre (set_patch (set_minor (set_major hi infinity) infinity) infinity)) false
    else new_span lo false (caret_hi3 hi) false
  else if typ =? go_tokTilde then
    let hi1 :=
      if (major lo =? 0) && (2 <=? n)%nat then set_patch hi infinity
      else match n with
           | 1%nat => set_patch (set_minor hi infinity) infinity
           | 2%nat => set_patch hi infinity
           | 3%nat => set_patch hi infinity
           | _ => hi
           end in
    op_tail lo false hi1 false
  else if typ =? go_tokBacon then
    let nn := if is_rubygems_or_pypi sys then Z.to_nat (v_user_num_count lo) else n in
    match nn with
    | O => Err E_generic
    | 1%nat =>
        if sys_eqb sys SPyPI then Err E_generic
        else op_tail lo false (set_patch (set_minor hi infinity) infinity) false
    | 2%nat =>
        let hi1 := set_patch (set_minor hi infinity) infinity in
        if negb (major lo =? infinity) then new_span lo false hi1 false
        else op_tail lo false hi1 false
    | 3%nat => op_tail lo false (set_patch hi infinity) false
    | _ => op_tail lo false (set_num hi (length (v_num hi) - 1) infinity) false
    end
  else Err E_generic.

(* ---------------------------------------------------------------- excludeToSpans (!=) *)
Definition zero_version (sys : system) : version :=
  {| v_sys := sys; v_user_num_count := 0; v_is_prerelease := false; v_str := [48;46;48;46;48]%N;
     v_num := [0;0;0]; v_pre := []; v_build := []; v_ext := NoExt |}.
Definition s_inf3 : bytes := s_inf ++ [46%N] ++ s_inf ++ [46%N] ++ s_inf.
Definition inf_version (sys : system) : version :=
  {| v_sys := sys; v_user_num_count := 0; v_is_prerelease := false; v_str := s_inf3;
     v_num := [infinity;infinity;infinity]; v_pre := []; v_build := []; v_ext := NoExt |}.

Definition exclude_to_spans (v : version) : res (span * span) :=
  match rev (v_num v) with
  | [] => Err E_generic
  | last :: front =>
      if existsb is_wild_or_inf front then Err E_generic else
      if last =? infinity then Err E_generic else
      r <- (if last =? wildcard then
              opp <- op_version_to_span go_tokEmpty v;;
              lo <- opt_version (sp_min opp);;
              hi <- opt_version (sp_max opp);;
              Ok (lo, hi, match sp_rank opp with RUnit => true | _ => false end)
            else Ok (v, v, true));;
      let '(lo, hi, same) := r in
      (* newSpan(zero, closed, lo, open) edits lo (as its max argument) *)
      let lo' := vset_build (set_tail lo wildcard infinity) [] in
      let hi' := if same then lo' else hi in
      s1 <- new_span (zero_version (v_sys v)) false lo true;;
      s2 <- new_span hi' true (inf_version (v_sys v)) false;;
      Ok (s1, s2)
  end.

End WithParser.
