(* Intersect on a pair of spans, newSpan on versions without wildcards, and the order embedding
   used to reason about finitely many versions with lia. *)
From Coq Require Import Lia.
From DepsDev Require Import Lib.Base Lib.Order Semver.Version Semver.Maven Semver.Gem Semver.Pep440 Semver.Compare
     Semver.Generic_proofs Semver.Compare_proofs Semver.Span Semver.Interval Semver.Set
     Semver.Span_proofs.
Local Open Scope Z_scope.

Section Rank.
Variable S : system.
Notation gc := (generic_compare S).

(* rank of x among the versions of l: how many of them are strictly below x *)
Definition rk (l : list version) (x : version) : Z := Z.of_nat (length (filter (fun y => gc y x <? 0) l)).

Lemma filter_len_le {A} (f g : A -> bool) l : (forall z, In z l -> f z = true -> g z = true) ->
  (length (filter f l) <= length (filter g l))%nat.
Proof.
  induction l as [|a l IH]; intros H; simpl; auto.
  assert (IH' := IH (fun z Iz => H z (or_intror Iz))).
  destruct (f a) eqn:Fa.
  - rewrite (H a (or_introl eq_refl) Fa). simpl. lia.
  - destruct (g a); simpl; lia.
Qed.

Lemma filter_len_lt {A} (f g : A -> bool) l w : (forall z, In z l -> f z = true -> g z = true) ->
  In w l -> g w = true -> f w = false -> (length (filter f l) < length (filter g l))%nat.
Proof.
  induction l as [|a l IH]; intros H Iw Gw Fw; [destruct Iw|].
  simpl. assert (Hl := fun z Iz => H z (or_intror Iz)).
  destruct Iw as [->|Iw].
  - rewrite Fw, Gw. simpl. pose proof (filter_len_le f g l Hl). lia.
  - specialize (IH Hl Iw Gw Fw). destruct (f a) eqn:Fa.
    + rewrite (H a (or_introl eq_refl) Fa). simpl. lia.
    + destruct (g a); simpl; lia.
Qed.

Lemma rk_le l x y : gc x y <= 0 -> rk l x <= rk l y.
Proof.
  intros L. unfold rk. apply inj_le. apply filter_len_le. intros z _ Hz.
  apply Z.ltb_lt in Hz. apply Z.ltb_lt. apply (gc_lt_le_trans S z x y); auto.
Qed.

Lemma rk_lt l x y : In x l -> gc x y < 0 -> rk l x < rk l y.
Proof.
  intros Ix L. unfold rk. apply inj_lt. apply (filter_len_lt _ _ l x); auto.
  - intros z _ Hz. apply Z.ltb_lt in Hz. apply Z.ltb_lt. apply (gc_lt_le_trans S z x y); auto; lia.
  - apply Z.ltb_lt. auto.
  - apply Z.ltb_ge. rewrite gc_refl. lia.
Qed.

Lemma rk_spec l x y : In x l -> In y l ->
  (gc x y < 0 <-> rk l x < rk l y) /\ (gc x y = 0 <-> rk l x = rk l y) /\ (gc x y <= 0 <-> rk l x <= rk l y).
Proof.
  intros Ix Iy. pose proof (gc_antisym S x y) as A.
  destruct (Z_dec (gc x y) 0) as [[L|G]|E].
  - pose proof (rk_lt l x y Ix L). lia.
  - assert (L : gc y x < 0) by lia. pose proof (rk_lt l y x Iy L). lia.
  - assert (E' : gc y x = 0) by lia.
    pose proof (rk_le l x y ltac:(lia)). pose proof (rk_le l y x ltac:(lia)). lia.
Qed.

End Rank.

Section Inter.
Variable S : system.
Notation gc := (generic_compare S).
Notation fam := (fam_version S).

(* ---------------------------------------------------------------- newSpan without wildcards *)
Definition nowild (v : version) : bool := forallb (fun x => 0 <=? x) (v_num v).

Lemma fill_from_none l : forallb (fun x => 0 <=? x) l = true -> fill_from l wildcard 0 = None /\ fill_from l wildcard infinity = None.
Proof.
  induction l as [|x t IH]; simpl; auto. intros H. apply andb_prop in H. destruct H as [Hx Ht].
  apply Z.leb_le in Hx. destruct (IH Ht) as [-> ->].
  assert (E : (x =? wildcard) = false) by (apply Z.eqb_neq; unfold wildcard; lia).
  rewrite E. auto.
Qed.

Lemma pad_nowild l n : forallb (fun x => 0 <=? x) l = true -> forallb (fun x => 0 <=? x) (pad_to l n) = true.
Proof.
  intros H. unfold pad_to. rewrite forallb_app, H. simpl.
  induction (n - length l)%nat; simpl; auto.
Qed.

Lemma set_tail_nowild v fill : nowild v = true -> (fill = 0 \/ fill = infinity) -> set_tail v wildcard fill = v.
Proof.
  intros H Hf. unfold set_tail.
  destruct (fill_from_none _ (pad_nowild (v_num v) (at_least3 (v_num v)) H)) as [E1 E2].
  destruct Hf as [-> | ->]; [rewrite E1 | rewrite E2]; reflexivity.
Qed.

Lemma major_nowild v : nowild v = true -> (major v =? wildcard) = false.
Proof.
  unfold nowild, major. intros H. apply Z.eqb_neq. unfold wildcard.
  destruct (v_num v) as [|x t]; simpl in *; [lia|]. apply andb_prop in H. destruct H as [Hx _].
  apply Z.leb_le in Hx. lia.
Qed.

Lemma gc_build a b x y : gc (vset_build a x) (vset_build b y) = gc a b.
Proof. apply generic_compare_fields; reflexivity. Qed.
Lemma gc_build_l a x b : gc (vset_build a x) b = gc a b.
Proof. apply generic_compare_fields; reflexivity. Qed.
Lemma gc_build_r a b y : gc a (vset_build b y) = gc a b.
Proof. apply generic_compare_fields; reflexivity. Qed.

Lemma fam_build v b : fam v -> fam (vset_build v b).
Proof. intros [A B]. split; auto. Qed.

Lemma new_span_nowild mn mo mx xo : fam mn -> fam mx -> nowild mn = true -> nowild mx = true ->
  new_span mn mo mx xo =
  if gc mn mx =? 0 then
    Ok {| sp_rank := RUnit; sp_min_open := mo; sp_max_open := xo;
          sp_min := Some (vset_build mn []); sp_max := Some (vset_build mn []) |}
  else if gc mn mx <? 0 then
    Ok {| sp_rank := RVector; sp_min_open := mo; sp_max_open := xo;
          sp_min := Some (vset_build mn []); sp_max := Some (vset_build mx []) |}
  else Err E_max_less_min.
Proof.
  intros Fa Fb Wa Wb. unfold new_span.
  rewrite (major_nowild _ Wa), (set_tail_nowild mn 0 Wa (or_introl eq_refl)),
          (set_tail_nowild mx infinity Wb (or_intror eq_refl)).
  rewrite (compare_family S) by (apply fam_build; auto). simpl. rewrite gc_build. reflexivity.
Qed.

(* ---------------------------------------------------------------- one pair of spans *)
(* a span with both bounds, without wildcards, min <= max; a unit span has closed ends *)
Definition good_span_b (s : span) : bool :=
  match sp_min s, sp_max s with
  | Some mn, Some mx =>
      sys_eqb (v_sys mn) S && sys_eqb (v_sys mx) S
      && match v_ext mn, v_ext mx with NoExt, NoExt => true | _, _ => false end
      && nowild mn && nowild mx
      && match sp_rank s with
         | REmpty => false
         | RUnit => (gc mn mx =? 0) && negb (sp_min_open s) && negb (sp_max_open s)
         | RVector => gc mn mx <=? 0
         end
  | _, _ => false
  end.

(* the bounds Intersect chooses *)
Definition pick_min (s t : span) (smn tmn : version) : version * bool :=
  let c := gc tmn smn in
  if (0 <? c) || ((c =? 0) && sp_min_open t) then (tmn, sp_min_open t) else (smn, sp_min_open s).
Definition pick_max (s t : span) (smx tmx : version) : version * bool :=
  let c := gc tmx smx in
  if (c <? 0) || ((c =? 0) && sp_max_open t) then (tmx, sp_max_open t) else (smx, sp_max_open s).

(* the two spans do not meet in exactly one point that one of them excludes *)
Definition no_point_contact_b (s t : span) : bool :=
  match sp_min s, sp_max s, sp_min t, sp_max t with
  | Some smn, Some smx, Some tmn, Some tmx =>
      let '(mn, mo) := pick_min s t smn tmn in
      let '(mx, xo) := pick_max s t smx tmx in
      negb ((gc mn mx =? 0) && (mo || xo))
  | _, _, _, _ => false
  end.

Lemma sys_eqb_true a b : sys_eqb a b = true -> a = b.
Proof. unfold sys_eqb. intros H. apply Z.eqb_eq in H. destruct a, b; simpl in H; congruence || lia. Qed.

Record good_facts (s : span) (mn mx : version) : Prop := {
  gf_min : sp_min s = Some mn; gf_max : sp_max s = Some mx;
  gf_fmn : fam mn; gf_fmx : fam mx; gf_wmn : nowild mn = true; gf_wmx : nowild mx = true;
  gf_le : gc mn mx <= 0;
  gf_rank : match sp_rank s with
            | REmpty => False
            | RUnit => gc mn mx = 0 /\ sp_min_open s = false /\ sp_max_open s = false
            | RVector => True end }.

Lemma good_span_spec s : good_span_b s = true -> exists mn mx, good_facts s mn mx.
Proof.
  unfold good_span_b. destruct (sp_min s) as [mn|] eqn:Emn; [|discriminate].
  destruct (sp_max s) as [mx|] eqn:Emx; [|discriminate].
  intros H. do 5 (apply andb_prop in H; destruct H as [H ?]).
  apply sys_eqb_true in H. apply sys_eqb_true in H4.
  destruct (v_ext mn) eqn:E1; try discriminate. destruct (v_ext mx) eqn:E2; try discriminate.
  exists mn, mx. destruct (sp_rank s) eqn:R; try discriminate.
  - do 2 (apply andb_prop in H0; destruct H0 as [H0 ?]). apply Z.eqb_eq in H0.
    apply negb_true_iff in H5. apply negb_true_iff in H6.
    constructor; try rewrite R; auto; try (split; auto); lia.
  - apply Z.leb_le in H0. constructor; try rewrite R; auto; split; auto.
Qed.

(* membership in a good span *)
Lemma in_good_span s mn mx v : good_facts s mn mx ->
  (in_span S true s v = true <->
   (if sp_min_open s then gc mn v < 0 else gc mn v <= 0) /\ (if sp_max_open s then gc v mx < 0 else gc v mx <= 0)).
Proof.
  intros G. unfold in_span. rewrite (gf_min _ _ _ G), (gf_max _ _ _ G).
  pose proof (gf_rank _ _ _ G) as R. destruct (sp_rank s) eqn:ER; [tauto| |].
  - destruct R as (E & O1 & O2). rewrite O1, O2, Z.eqb_eq.
    pose proof (gc_congr S mn mx v E). pose proof (gc_antisym S mx v). lia.
  - rewrite orb_true_l, andb_true_r, andb_true_iff.
    destruct (sp_min_open s); [rewrite lower_ok_lt | rewrite lower_ok_le];
      (destruct (sp_max_open s); [rewrite upper_ok_lt | rewrite upper_ok_le]); tauto.
Qed.

(* Intersect of two one-span sets, seen through inter_row *)
Theorem inter_pair s t : good_span_b s = true -> good_span_b t = true -> no_point_contact_b s t = true ->
  exists r, inter_row s [t] = Ok r /\ Forall (fun p => good_span_b p = true) r /\
    forall v, in_spans S true r v = in_span S true s v && in_span S true t v.
Proof.
  intros Gs Gt Np.
  destruct (good_span_spec _ Gs) as (smn & smx & A). destruct (good_span_spec _ Gt) as (tmn & tmx & B).
  unfold no_point_contact_b in Np. rewrite (gf_min _ _ _ A), (gf_max _ _ _ A), (gf_min _ _ _ B), (gf_max _ _ _ B) in Np.
  unfold inter_row.
  assert (Rt : rank_is_empty (sp_rank t) = false).
  { pose proof (gf_rank _ _ _ B). destruct (sp_rank t); simpl; tauto. }
  rewrite Rt, (gf_min _ _ _ A), (gf_max _ _ _ A), (gf_min _ _ _ B), (gf_max _ _ _ B).
  pose proof (gf_fmn _ _ _ A) as F1. pose proof (gf_fmx _ _ _ A) as F2.
  pose proof (gf_fmn _ _ _ B) as F3. pose proof (gf_fmx _ _ _ B) as F4.
  cbn [compare_opt]. rewrite !(compare_family S) by auto. cbn [bind].
  (* membership of a version in s and in t, in words, and an order embedding of the five points *)
  assert (Mem : forall v, in_span S true s v && in_span S true t v = true <->
            ((if sp_min_open s then gc smn v < 0 else gc smn v <= 0) /\ (if sp_max_open s then gc v smx < 0 else gc v smx <= 0)) /\
            ((if sp_min_open t then gc tmn v < 0 else gc tmn v <= 0) /\ (if sp_max_open t then gc v tmx < 0 else gc v tmx <= 0))).
  { intros v. rewrite andb_true_iff, (in_good_span _ _ _ v A), (in_good_span _ _ _ v B). tauto. }
  assert (Emb : forall v, exists r : version -> Z,
            forall x y, In x [smn; smx; tmn; tmx; v] -> In y [smn; smx; tmn; tmx; v] ->
              (gc x y < 0 <-> r x < r y) /\ (gc x y = 0 <-> r x = r y) /\ (gc x y <= 0 <-> r x <= r y)).
  { intros v. exists (rk S [smn; smx; tmn; tmx; v]). intros x y. apply rk_spec. }
  pose proof (gf_le _ _ _ A) as Ls. pose proof (gf_le _ _ _ B) as Lt.
  destruct (Z.ltb_spec (gc tmx smn) 0) as [C1|C1]; cbn [orb].
  { (* t lies entirely below s *)
    exists []. split; [reflexivity|]. split; [constructor|].
    intros v. simpl. symmetry. apply not_true_iff_false. rewrite Mem. intros ((L1 & _) & (_ & U2)).
    destruct (Emb v) as (r & Hr).
    pose proof (Hr tmx smn ltac:(simpl; auto) ltac:(simpl; auto)).
    pose proof (Hr smn v ltac:(simpl; auto) ltac:(simpl; auto 6)).
    pose proof (Hr v tmx ltac:(simpl; auto 6) ltac:(simpl; auto)).
    destruct (sp_min_open s), (sp_max_open t); lia. }
  destruct ((gc tmx smn =? 0) && sp_max_open t) eqn:C1'.
  { exists []. split; [reflexivity|]. split; [constructor|].
    apply andb_prop in C1'. destruct C1' as [E O]. apply Z.eqb_eq in E.
    intros v. simpl. symmetry. apply not_true_iff_false. rewrite Mem. rewrite O. intros ((L1 & _) & (_ & U2)).
    destruct (Emb v) as (r & Hr).
    pose proof (Hr tmx smn ltac:(simpl; auto) ltac:(simpl; auto)).
    pose proof (Hr smn v ltac:(simpl; auto) ltac:(simpl; auto 6)).
    pose proof (Hr v tmx ltac:(simpl; auto 6) ltac:(simpl; auto)).
    destruct (sp_min_open s); lia. }
  destruct (Z.ltb_spec 0 (gc tmn smx)) as [C2|C2].
  { (* t lies entirely above s *)
    exists []. split; [reflexivity|]. split; [constructor|].
    intros v. simpl. symmetry. apply not_true_iff_false. rewrite Mem. intros ((_ & U1) & (L2 & _)).
    destruct (Emb v) as (r & Hr).
    pose proof (Hr tmn smx ltac:(simpl; auto) ltac:(simpl; auto)).
    pose proof (gc_antisym S tmn smx).
    pose proof (Hr smx tmn ltac:(simpl; auto) ltac:(simpl; auto)).
    pose proof (Hr v smx ltac:(simpl; auto 6) ltac:(simpl; auto)).
    pose proof (Hr tmn v ltac:(simpl; auto) ltac:(simpl; auto 6)).
    destruct (sp_max_open s), (sp_min_open t); lia. }
  (* they overlap *)
  assert (Hmin : (if (0 <? gc tmn smn) || ((gc tmn smn =? 0) && sp_min_open t)
                  then (Some tmn, sp_min_open t) else (Some smn, sp_min_open s))
                 = (Some (fst (pick_min s t smn tmn)), snd (pick_min s t smn tmn))).
  { unfold pick_min. destruct ((0 <? gc tmn smn) || ((gc tmn smn =? 0) && sp_min_open t)); reflexivity. }
  assert (Hmax : (if (gc tmx smx <? 0) || ((gc tmx smx =? 0) && sp_max_open t)
                  then (Some tmx, sp_max_open t) else (Some smx, sp_max_open s))
                 = (Some (fst (pick_max s t smx tmx)), snd (pick_max s t smx tmx))).
  { unfold pick_max. destruct ((gc tmx smx <? 0) || ((gc tmx smx =? 0) && sp_max_open t)); reflexivity. }
  rewrite Hmin, Hmax. clear Hmin Hmax.
  destruct (pick_min s t smn tmn) as [mn mo] eqn:Pmin. destruct (pick_max s t smx tmx) as [mx xo] eqn:Pmax.
  cbn [fst snd].
  assert (Fmn : fam mn /\ nowild mn = true /\ (mn = smn \/ mn = tmn)).
  { unfold pick_min in Pmin. destruct ((0 <? gc tmn smn) || ((gc tmn smn =? 0) && sp_min_open t));
      inversion Pmin; subst; repeat split; auto; apply A || apply B. }
  assert (Fmx : fam mx /\ nowild mx = true /\ (mx = smx \/ mx = tmx)).
  { unfold pick_max in Pmax. destruct ((gc tmx smx <? 0) || ((gc tmx smx =? 0) && sp_max_open t));
      inversion Pmax; subst; repeat split; auto; apply A || apply B. }
  destruct Fmn as (Fmn & Wmn & Cmn). destruct Fmx as (Fmx & Wmx & Cmx).
  cbn [new_span_opt opt_version bind]. rewrite new_span_nowild by auto.
  (* min <= max whichever bounds were picked *)
  assert (Lmm : gc mn mx <= 0).
  { destruct (Emb smn) as (r & Hr).
    pose proof (Hr smn smx ltac:(simpl; auto) ltac:(simpl; auto)).
    pose proof (Hr tmn tmx ltac:(simpl; auto) ltac:(simpl; auto)).
    pose proof (Hr tmn smx ltac:(simpl; auto) ltac:(simpl; auto)).
    pose proof (Hr tmx smn ltac:(simpl; auto) ltac:(simpl; auto)).
    pose proof (Hr smn tmx ltac:(simpl; auto) ltac:(simpl; auto)).
    pose proof (gc_antisym S tmx smn).
    pose proof (Hr mn mx ltac:(destruct Cmn; subst; simpl; auto) ltac:(destruct Cmx; subst; simpl; auto)).
    destruct Cmn, Cmx; subst; lia. }
  (* the picked bounds are the tighter ones *)
  assert (Tight : forall v,
            ((if sp_min_open s then gc smn v < 0 else gc smn v <= 0) /\ (if sp_min_open t then gc tmn v < 0 else gc tmn v <= 0)
             <-> (if mo then gc mn v < 0 else gc mn v <= 0)) /\
            ((if sp_max_open s then gc v smx < 0 else gc v smx <= 0) /\ (if sp_max_open t then gc v tmx < 0 else gc v tmx <= 0)
             <-> (if xo then gc v mx < 0 else gc v mx <= 0))).
  { intros v. destruct (Emb v) as (r & Hr).
    pose proof (Hr tmn smn ltac:(simpl; auto) ltac:(simpl; auto)).
    pose proof (Hr tmx smx ltac:(simpl; auto) ltac:(simpl; auto)).
    pose proof (Hr smn v ltac:(simpl; auto) ltac:(simpl; auto 6)).
    pose proof (Hr tmn v ltac:(simpl; auto) ltac:(simpl; auto 6)).
    pose proof (Hr v smx ltac:(simpl; auto 6) ltac:(simpl; auto)).
    pose proof (Hr v tmx ltac:(simpl; auto 6) ltac:(simpl; auto)).
    unfold pick_min in Pmin. unfold pick_max in Pmax.
    split.
    - destruct (Z.ltb_spec 0 (gc tmn smn)); cbn [orb] in Pmin.
      + inversion Pmin; subst. destruct (sp_min_open s), (sp_min_open t); lia.
      + destruct (Z.eqb_spec (gc tmn smn) 0); cbn [andb] in Pmin.
        * destruct (sp_min_open t) eqn:Ot; inversion Pmin; subst; rewrite ?Ot; destruct (sp_min_open s); lia.
        * inversion Pmin; subst. destruct (sp_min_open s), (sp_min_open t); lia.
    - destruct (Z.ltb_spec (gc tmx smx) 0); cbn [orb] in Pmax.
      + inversion Pmax; subst. destruct (sp_max_open s), (sp_max_open t); lia.
      + destruct (Z.eqb_spec (gc tmx smx) 0); cbn [andb] in Pmax.
        * destruct (sp_max_open t) eqn:Ot; inversion Pmax; subst; rewrite ?Ot; destruct (sp_max_open s); lia.
        * inversion Pmax; subst. destruct (sp_max_open s), (sp_max_open t); lia. }
  destruct (Z.eqb_spec (gc mn mx) 0) as [Eq|Ne].
  - (* a single point: both ends are closed by no_point_contact *)
    cbn [andb] in Np. apply negb_true_iff in Np. apply orb_false_iff in Np. destruct Np as [-> ->].
    cbn [bind]. eexists. split; [reflexivity|].
    split.
    { constructor; [|constructor]. unfold good_span_b. cbn [sp_min sp_max sp_rank sp_min_open sp_max_open vset_build v_sys v_ext v_num].
      destruct Fmn as [E1 E2]. rewrite E1, E2, sys_eqb_refl.
      change (nowild (vset_build mn [])) with (nowild mn). rewrite Wmn, gc_refl. reflexivity. }
    intros v. apply eq_true_iff_eq. rewrite Mem. unfold in_spans. cbn [existsb]. rewrite orb_false_r.
    unfold in_span. cbn [sp_rank sp_min sp_max]. rewrite gc_build_l, Z.eqb_eq.
    destruct (Tight v) as (T1 & T2).
    pose proof (gc_congr S mn mx v Eq). pose proof (gc_antisym S mx v).
    split.
    + intros E. split; split; try (apply T1; lia); try (apply T2; lia).
    + intros ((L1 & U1) & (L2 & U2)). assert (gc mn v <= 0) by (apply T1; auto). assert (gc v mx <= 0) by (apply T2; auto). lia.
  - assert (Lt' : gc mn mx < 0) by lia. apply Z.ltb_lt in Lt'. rewrite Lt'. apply Z.ltb_lt in Lt'.
    cbn [bind]. eexists. split; [reflexivity|].
    split.
    { constructor; [|constructor]. unfold good_span_b. cbn [sp_min sp_max sp_rank sp_min_open sp_max_open vset_build v_sys v_ext v_num].
      destruct Fmn as [E1 E2]. destruct Fmx as [E3 E4]. rewrite E1, E2, E3, E4, sys_eqb_refl.
      change (nowild (vset_build mn [])) with (nowild mn). change (nowild (vset_build mx [])) with (nowild mx).
      rewrite Wmn, Wmx, gc_build. simpl. apply Z.leb_le. lia. }
    intros v. apply eq_true_iff_eq. rewrite Mem. unfold in_spans. cbn [existsb]. rewrite orb_false_r.
    unfold in_span. cbn [sp_rank sp_min sp_max sp_min_open sp_max_open]. rewrite orb_true_l, andb_true_r, andb_true_iff.
    destruct (Tight v) as (T1 & T2).
    assert (LO : lower_ok S (vset_build mn []) mo v = true <-> (if mo then gc mn v < 0 else gc mn v <= 0)).
    { destruct mo; [rewrite lower_ok_lt | rewrite lower_ok_le]; rewrite gc_build_l; tauto. }
    assert (UP : upper_ok S (vset_build mx []) xo v = true <-> (if xo then gc v mx < 0 else gc v mx <= 0)).
    { destruct xo; [rewrite upper_ok_lt | rewrite upper_ok_le]; rewrite gc_build_r; tauto. }
    rewrite LO, UP. tauto.
Qed.

End Inter.
