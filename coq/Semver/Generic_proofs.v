(* Proofs about the generic (SemVer-family) comparison of Version.v: it is a total
   preorder on ALL version structures, and ignores build metadata. *)
From Coq Require Import Lia.
From DepsDev Require Import Lib.Base Lib.Order Semver.Version.
Local Open Scope Z_scope.

(* ------------------------------------------------------------------ base comparators *)
Lemma sgnZ_cmpZ a b : sgnZ a b = cmpZ a b.
Proof. reflexivity. Qed.

Lemma sgnZ_core : cmp_core (fun _ : Z => True) sgnZ.
Proof. exact cmpZ_core. Qed.

Lemma sgnZ_refl a : sgnZ a a = 0.
Proof. unfold sgnZ. rewrite Z.compare_refl. reflexivity. Qed.

Lemma Forall_True {A} (l : list A) : Forall (fun _ => True) l.
Proof. induction l; constructor; auto. Qed.

Lemma bytes_compare_list_lex a b : bytes_compare a b = list_lex cmpN (-1) a b.
Proof.
  revert b. induction a as [|x a IH]; intros [|y b]; simpl; auto.
  unfold cmpN. destruct (N.compare x y); simpl; auto.
Qed.

Lemma bytes_core : cmp_core (fun _ : bytes => True) bytes_compare.
Proof.
  eapply core_ext with (c := list_lex cmpN (-1)).
  - intros; symmetry; apply bytes_compare_list_lex.
  - eapply core_weaken; [|apply (core_list_lex cmpN (-1) (fun _ => True) cmpN_core)]; [|lia].
    intros a _. apply Forall_True.
Qed.

Definition lowerZ (c : N) : Z := Z.of_N (ascii_lower c).

Lemma nuget_compare_list_lex a b :
  nuget_compare a b = list_lex sgnZ (-1) (map lowerZ a) (map lowerZ b).
Proof.
  revert b. induction a as [|x a IH]; intros [|y b]; simpl; auto.
  fold (lowerZ x) (lowerZ y). rewrite IH. reflexivity.
Qed.

Lemma nuget_core : cmp_core (fun _ : bytes => True) nuget_compare.
Proof.
  eapply core_ext with (c := fun a b => list_lex sgnZ (-1) (map lowerZ a) (map lowerZ b)).
  - intros; symmetry; apply nuget_compare_list_lex.
  - apply (core_pullback (map lowerZ) (fun _ => True) (Forall (fun _ : Z => True)) (list_lex sgnZ (-1))).
    + intros a _. apply Forall_True.
    + apply core_list_lex; [apply sgnZ_core | lia].
Qed.

(* ------------------------------------------------------------------ numbers before words *)
(* A comparator that first classifies its arguments with f: classified (Some n) sort first,
   by n; unclassified ones are compared by c. *)
Section NumStr.
  Context {A : Type} (f : A -> option Z) (c : A -> A -> Z).
  Definition numstr (a b : A) : Z :=
    match f a, f b with
    | Some n1, Some n2 => sgnZ n1 n2
    | Some _, None => -1
    | None, Some _ => 1
    | None, None => c a b
    end.

  Lemma core_numstr : cmp_core (fun _ => True) c -> cmp_core (fun _ => True) numstr.
  Proof.
    intros [R S T C]. destruct sgnZ_core as [R' S' T' C'].
    unfold numstr; split.
    - intros a _. destruct (f a); auto.
    - intros a b _ _. destruct (f a), (f b); auto; reflexivity.
    - intros a b x _ _ _. destruct (f a), (f b), (f x); intros; try lia; eauto.
    - intros a b x _ _ _. destruct (f a), (f b), (f x); intros; try lia; eauto.
  Qed.
End NumStr.

Lemma compare_elem_numstr sys s1 s2 :
  compare_elem sys s1 s2 =
  numstr (is_numeric sys) (if sys_eqb sys SNuGet then nuget_compare else bytes_compare) s1 s2.
Proof.
  unfold compare_elem, numstr. destruct (is_numeric sys s1), (is_numeric sys s2); auto.
  destruct (sys_eqb sys SNuGet); reflexivity.
Qed.

Lemma compare_elem_core sys : cmp_core (fun _ : bytes => True) (compare_elem sys).
Proof.
  eapply core_ext; [intros; symmetry; apply compare_elem_numstr|].
  apply core_numstr. destruct (sys_eqb sys SNuGet); [apply nuget_core | apply bytes_core].
Qed.

Lemma compare_pre_list_lex sys p1 p2 : compare_pre sys p1 p2 = list_lex (compare_elem sys) (-1) p1 p2.
Proof. revert p2. induction p1 as [|x t IH]; intros [|y t2]; simpl; auto. rewrite IH. reflexivity. Qed.

Lemma compare_pre_core sys : cmp_core (fun _ : list bytes => True) (compare_pre sys).
Proof.
  eapply core_ext; [intros; symmetry; apply compare_pre_list_lex|].
  eapply core_weaken; [|apply (core_list_lex (compare_elem sys) (-1) (fun _ => True) (compare_elem_core sys))]; [|lia].
  intros a _. apply Forall_True.
Qed.

(* ------------------------------------------------------------------ zero-padded numbers *)
Definition pad (n : nat) (l : list Z) : list Z := l ++ repeat 0 (n - length l).

Lemma list_lex_zero_l short n : list_lex sgnZ short (repeat 0 n) (repeat 0 n) = 0.
Proof. induction n; simpl; auto. Qed.

Lemma cmp_zero_l_pad short a n : (length a <= n)%nat ->
  cmp_zero_l a = list_lex sgnZ short (pad n a) (repeat 0 n).
Proof.
  unfold pad. revert n. induction a as [|x a IH]; intros n H; simpl.
  - rewrite Nat.sub_0_r. symmetry. apply list_lex_zero_l.
  - destruct n as [|n]; simpl in *; [lia|].
    rewrite (IH n) by lia. reflexivity.
Qed.

Lemma cmp_zero_r_pad short b n : (length b <= n)%nat ->
  cmp_zero_r b = list_lex sgnZ short (repeat 0 n) (pad n b).
Proof.
  unfold pad. revert n. induction b as [|y b IH]; intros n H; simpl.
  - rewrite Nat.sub_0_r. symmetry. apply list_lex_zero_l.
  - destruct n as [|n]; simpl in *; [lia|].
    rewrite (IH n) by lia. reflexivity.
Qed.

Lemma pad_nil n : pad n [] = repeat 0 n.
Proof. unfold pad. simpl. rewrite Nat.sub_0_r. reflexivity. Qed.

Lemma compare_nums_pad short a : forall b n, (length a <= n)%nat -> (length b <= n)%nat ->
  compare_nums a b = list_lex sgnZ short (pad n a) (pad n b).
Proof.
  induction a as [|x a IH]; intros [|y b] n Ha Hb.
  - simpl. rewrite pad_nil. symmetry. apply list_lex_zero_l.
  - change (compare_nums [] (y :: b)) with (cmp_zero_r (y :: b)).
    rewrite pad_nil. apply cmp_zero_r_pad; auto.
  - change (compare_nums (x :: a) []) with (cmp_zero_l (x :: a)).
    rewrite pad_nil. apply cmp_zero_l_pad; auto.
  - destruct n as [|n]; simpl in *; [lia|].
    unfold pad in *. simpl. rewrite (IH b n) by lia. reflexivity.
Qed.

Lemma compare_nums_core : cmp_core (fun _ : list Z => True) compare_nums.
Proof.
  pose proof (core_list_lex sgnZ (-1) (fun _ => True) sgnZ_core ltac:(lia)) as [R S T C].
  split.
  - intros a _. rewrite (compare_nums_pad (-1) a a (length a)) by lia. apply R, Forall_True.
  - intros a b _ _.
    rewrite (compare_nums_pad (-1) a b (Nat.max (length a) (length b))) by lia.
    rewrite (compare_nums_pad (-1) b a (Nat.max (length a) (length b))) by lia.
    apply S; apply Forall_True.
  - intros a b x _ _ _.
    set (n := Nat.max (length a) (Nat.max (length b) (length x))).
    rewrite (compare_nums_pad (-1) a b n), (compare_nums_pad (-1) b x n), (compare_nums_pad (-1) a x n) by lia.
    apply T; apply Forall_True.
  - intros a b x _ _ _.
    set (n := Nat.max (length a) (Nat.max (length b) (length x))).
    rewrite (compare_nums_pad (-1) a b n), (compare_nums_pad (-1) b x n), (compare_nums_pad (-1) a x n) by lia.
    apply C; apply Forall_True.
Qed.

(* ------------------------------------------------------------------ the whole comparison *)
Definition pre_key (v : version) : option (list bytes) :=
  match v_pre v with [] => None | l => Some l end.

Definition generic_compare' (sys : system) : version -> version -> Z :=
  lex (fun a b => compare_nums (v_num a) (v_num b))
      (fun a b => opt_cmp (compare_pre sys) 1 (pre_key a) (pre_key b)).

Lemma generic_compare_lex sys a b : generic_compare sys a b = generic_compare' sys a b.
Proof.
  unfold generic_compare, generic_compare', lex, pre_key, opt_cmp.
  destruct (compare_nums (v_num a) (v_num b) =? 0); simpl; auto.
  destruct (v_pre a), (v_pre b); reflexivity.
Qed.

Lemma generic_compare_core sys : cmp_core (fun _ : version => True) (generic_compare sys).
Proof.
  eapply core_ext; [intros; symmetry; apply generic_compare_lex|].
  unfold generic_compare'. apply core_lex.
  - apply (core_pullback v_num (fun _ => True) (fun _ => True) compare_nums); auto. apply compare_nums_core.
  - apply (core_pullback pre_key (fun _ => True) (opt_P (fun _ => True)) (opt_cmp (compare_pre sys) 1)).
    + intros a _. destruct (pre_key a); simpl; auto.
    + apply core_opt; [apply compare_pre_core | lia].
Qed.

Theorem generic_compare_laws sys : cmp_laws (fun _ : version => True) (generic_compare sys).
Proof. apply core_laws, generic_compare_core. Qed.

(* The comparison reads only the numbers and the prerelease elements: build metadata,
   the original string, userNumCount and the isPrerelease flag never change it. *)
Lemma generic_compare_fields sys a a' b b' :
  v_num a = v_num a' -> v_pre a = v_pre a' -> v_num b = v_num b' -> v_pre b = v_pre b' ->
  generic_compare sys a b = generic_compare sys a' b'.
Proof. unfold generic_compare. intros -> -> -> ->. reflexivity. Qed.

Definition with_build (v : version) (b : bytes) : version :=
  {| v_sys := v_sys v; v_user_num_count := v_user_num_count v; v_is_prerelease := v_is_prerelease v;
     v_str := v_str v; v_num := v_num v; v_pre := v_pre v; v_build := b; v_ext := v_ext v |}.

Lemma generic_compare_build sys v b : generic_compare sys v (with_build v b) = 0.
Proof.
  rewrite (generic_compare_fields sys v v (with_build v b) v) by reflexivity.
  apply (cc_refl _ _ (generic_compare_core sys)). exact I.
Qed.
