(* C03, Cargo layer: the span produced by opVersionToSpan for an operator applied to a full
   release version denotes, on release candidates, what the semver crate's matches() accepts for
   that comparator (Spec/CargoReq.v).  The model-side lemmas are those of C03_proofs.v for the
   system Cargo. *)
From Coq Require Import Lia.
From DepsDev Require Import Lib.Base Lib.Order Semver.Version Semver.Maven Semver.Gem Semver.Pep440 Semver.Compare
     Semver.Generic_proofs Semver.Compare_proofs Semver.Span Semver.Interval Semver.Set Semver.Constraint
     Semver.Span_proofs Semver.Inc_proofs Semver.Inter_proofs Semver.C03_proofs Gen.SemverTables Spec.NodeRange Spec.CargoReq.
Local Open Scope Z_scope.

Notation gcc := (generic_compare SCargo).

Definition mk3c (str : bytes) (M m p : Z) : version :=
  {| v_sys := SCargo; v_user_num_count := 3; v_is_prerelease := false; v_str := str;
     v_num := [M; m; p]; v_pre := []; v_build := []; v_ext := NoExt |}.

(* a candidate: a release with three finite components *)
Definition candc (u : version) (a b c : Z) : Prop :=
  fam_version SCargo u /\ v_num u = [a; b; c] /\ v_pre u = [] /\ v_is_prerelease u = false /\ fin a /\ fin b /\ fin c.

Lemma fam_mk3c s M m p : fam_version SCargo (mk3c s M m p).
Proof. split; reflexivity. Qed.

(* comparison of a candidate with a bound whose components are given *)
Lemma gc_candc_l u a b c y d e f : candc u a b c -> v_num y = [d; e; f] -> v_pre y = [] -> gcc u y = lex3 a b c d e f.
Proof. intros (_ & N & P & _) Ny Py. apply (gc3 SCargo); auto. Qed.
Lemma gc_candc_r u a b c y d e f : candc u a b c -> v_num y = [d; e; f] -> v_pre y = [] -> gcc y u = lex3 d e f a b c.
Proof. intros (_ & N & P & _) Ny Py. apply (gc3 SCargo); auto. Qed.

Lemma new_span_3c st1 st2 a b c d e f mo xo : 0 <= a -> 0 <= b -> 0 <= c -> 0 <= d -> 0 <= e -> 0 <= f ->
  lex3 a b c d e f < 0 ->
  new_span (mk3c st1 a b c) mo (mk3c st2 d e f) xo =
  Ok {| sp_rank := RVector; sp_min_open := mo; sp_max_open := xo;
        sp_min := Some (mk3c st1 a b c); sp_max := Some (mk3c st2 d e f) |}.
Proof.
  intros. rewrite (new_span_nowild SCargo) by (try apply fam_mk3c; eapply nowild_3; try reflexivity; auto).
  rewrite (gc3 SCargo _ _ a b c d e f) by reflexivity.
  destruct (Z.eqb_spec (lex3 a b c d e f) 0); [lia|].
  destruct (Z.ltb_spec (lex3 a b c d e f) 0); [reflexivity|lia].
Qed.

Lemma new_span_3c_unit st a b c mo xo : 0 <= a -> 0 <= b -> 0 <= c ->
  new_span_same (mk3c st a b c) mo xo =
  Ok {| sp_rank := RUnit; sp_min_open := mo; sp_max_open := xo;
        sp_min := Some (mk3c st a b c); sp_max := Some (mk3c st a b c) |}.
Proof.
  intros. unfold new_span_same.
  assert (W : nowild (mk3c st a b c) = true) by (eapply nowild_3; try reflexivity; auto).
  rewrite (major_nowild _ W), (set_tail_nowild _ 0 W (or_introl eq_refl)).
  rewrite (new_span_nowild SCargo) by (try apply fam_mk3c; auto).
  rewrite gc_refl. reflexivity.
Qed.

(* the minimum version 0.0.0-0 is below every candidate *)
Definition min_cargo (unc : Z) : version :=
  {| v_sys := SCargo; v_user_num_count := unc; v_is_prerelease := false; v_str := s_min_str;
     v_num := [0; 0; 0]; v_pre := [[48%N]]; v_build := []; v_ext := NoExt |}.

Lemma min_below_c unc y d e f : v_num y = [d; e; f] -> v_pre y = [] -> 0 <= d -> 0 <= e -> 0 <= f -> gcc (min_cargo unc) y < 0.
Proof.
  intros Ny Py Hd He Hf. unfold generic_compare, min_cargo. cbn [v_num v_pre]. rewrite Ny, Py.
  simpl compare_nums.
  destruct (sgnZ_cases 0 d) as [[? ->]|[[? ->]|[? ->]]]; simpl; try lia.
  destruct (sgnZ_cases 0 e) as [[? ->]|[[? ->]|[? ->]]]; simpl; try lia.
  destruct (sgnZ_cases 0 f) as [[? ->]|[[? ->]|[? ->]]]; simpl; lia.
Qed.

Lemma new_span_min_c unc st d e f xo : 0 <= d -> 0 <= e -> 0 <= f ->
  new_span (min_cargo unc) false (mk3c st d e f) xo =
  Ok {| sp_rank := RVector; sp_min_open := false; sp_max_open := xo;
        sp_min := Some (min_cargo unc); sp_max := Some (mk3c st d e f) |}.
Proof.
  intros. rewrite (new_span_nowild SCargo); try (split; reflexivity); try reflexivity;
    [| eapply nowild_3; try reflexivity; auto].
  pose proof (min_below_c unc (mk3c st d e f) d e f eq_refl eq_refl ltac:(auto) ltac:(auto) ltac:(auto)) as L.
  destruct (Z.eqb_spec (gcc (min_cargo unc) (mk3c st d e f)) 0); [lia|].
  destruct (Z.ltb_spec (gcc (min_cargo unc) (mk3c st d e f)) 0); [reflexivity|lia].
Qed.

(* membership of a candidate, as comparisons of triples *)
Lemma in_vec_3c st1 st2 a b c d e f mo xo u x y z : candc u x y z ->
  in_span SCargo true {| sp_rank := RVector; sp_min_open := mo; sp_max_open := xo;
                       sp_min := Some (mk3c st1 a b c); sp_max := Some (mk3c st2 d e f) |} u
  = lowb mo (lex3 x y z a b c) && lowb xo (lex3 d e f x y z).
Proof.
  intros C. unfold in_span, lower_ok, upper_ok, lowb. cbn [sp_rank sp_min sp_max sp_min_open sp_max_open].
  rewrite (gc_candc_l u x y z _ a b c C) by reflexivity. rewrite (gc_candc_r u x y z _ d e f C) by reflexivity.
  rewrite orb_true_l, andb_true_r. reflexivity.
Qed.

Lemma in_vec_min_c unc st d e f xo u x y z : candc u x y z ->
  in_span SCargo true {| sp_rank := RVector; sp_min_open := false; sp_max_open := xo;
                       sp_min := Some (min_cargo unc); sp_max := Some (mk3c st d e f) |} u
  = lowb xo (lex3 d e f x y z).
Proof.
  intros C. unfold in_span, lower_ok, upper_ok, lowb. cbn [sp_rank sp_min sp_max sp_min_open sp_max_open].
  rewrite (gc_candc_r u x y z _ d e f C) by reflexivity.
  rewrite orb_true_l, andb_true_r, andb_false_r. cbn [orb].
  destruct C as (_ & N & P & _ & Hx & Hy & Hz). unfold fin in *.
  pose proof (min_below_c unc u x y z N P ltac:(lia) ltac:(lia) ltac:(lia)) as L.
  pose proof (gc_antisym SCargo (min_cargo unc) u).
  destruct (Z.ltb_spec (gcc u (min_cargo unc)) 0); [lia|]. reflexivity.
Qed.

Lemma in_unit_3c st a b c mo xo u x y z : candc u x y z ->
  in_span SCargo true {| sp_rank := RUnit; sp_min_open := mo; sp_max_open := xo;
                       sp_min := Some (mk3c st a b c); sp_max := Some (mk3c st a b c) |} u
  = (lex3 a b c x y z =? 0).
Proof.
  intros C. unfold in_span. cbn [sp_rank sp_min]. rewrite (gc_candc_r u x y z _ a b c C) by reflexivity. reflexivity.
Qed.

(* node's primitive comparators on a release candidate *)

Definition fullc (op : cop) (M m p : Z) : comparator :=
  {| c_op := op; c_major := M; c_minor := Some m; c_patch := Some p; c_pre := [] |}.

Section Ops.
Variable pv : system -> bool -> bytes -> res parse_out.
Variables (str : bytes) (M m p : Z).
Hypothesis HM : fin M.
Hypothesis Hm : fin m.
Hypothesis Hp : fin p.

Notation lo := (mk3c str M m p).

Lemma W_lo_c : is_wildcard_v lo = false.
Proof. unfold fin in *. apply wild_false; lia. Qed.

Ltac prep :=
  unfold op_version_to_span; rewrite W_lo_c; cbn [andb];
  change (v_sys lo) with SCargo; change (v_num lo) with [M; m; p];
  unfold go_tokEmpty, go_tokEqual, go_tokGreater, go_tokGreaterEqual, go_tokLess, go_tokLessEqual,
         go_tokCaret, go_tokTilde, go_tokBacon;
  cbn [sys_eqb sys_index Z.eqb Pos.eqb length Nat.ltb Nat.leb has_pre v_pre mk3c andb negb orb].

Lemma set_tail_lo_c : set_tail lo infinity infinity = lo.
Proof.
  unfold set_tail, fin in *. cbn [v_num mk3c at_least3 length Nat.max pad_to Nat.sub repeat app fill_from].
  rewrite !(proj2 (Z.eqb_neq _ infinity)) by lia. reflexivity.
Qed.

(* what the spans denote for a release candidate, against node's comparators *)

(* what the span denotes for a release candidate, against the crate's VersionReq::matches for the
   requirement made of that single comparator *)
Definition cargo_sound (r : res span) (op : cop) : Prop :=
  exists s, r = Ok s /\ forall u x y z, candc u x y z ->
    in_span SCargo true s u = matches_req [fullc op M m p] (sv_of u) /\
    in_span SCargo false s u = in_span SCargo true s u.

Lemma sv_of_candc u x y z : candc u x y z -> sv_of u = mk_sv x y z [].
Proof. intros (_ & N & P & _). unfold sv_of. rewrite N, P. reflexivity. Qed.

Ltac spec_side u x y z C :=
  unfold matches_req, matches_impl, fullc; cbn [forallb c_op];
  rewrite (sv_of_candc u x y z C);
  unfold matches_exact, matches_greater, matches_less, matches_tilde, matches_caret, pre_eq, pre_gt, pre_lt, pre_ge, is_nil;
  cbn [c_major c_minor c_patch c_pre sv_major sv_minor sv_patch sv_pre mk_sv pre_compare Z.eqb Z.ltb Z.leb Z.compare];
  rewrite ?andb_true_r.

Ltac arith u x y z C :=
  let Hx := fresh "Hx" in let Hy := fresh "Hy" in let Hz := fresh "Hz" in
  destruct C as (_ & _ & _ & _ & Hx & Hy & Hz); unfold fin, infinity in *; unfold lowb;
  repeat rewrite ?andb_false_r, ?andb_true_r, ?orb_false_r; cbn [orb andb negb];
  repeat match goal with
         | |- context [lex3 ?a ?b ?c ?d ?e ?f] =>
             let L := fresh "L" in let E := fresh "E" in
             pose proof (lex3_lt a b c d e f) as L; pose proof (lex3_eq a b c d e f) as E;
             let v := fresh "l" in set (v := lex3 a b c d e f) in *; clearbody v
         end;
  repeat match goal with
         | |- context [?a =? ?b] => destruct (Z.eqb_spec a b)
         | |- context [?a <? ?b] => destruct (Z.ltb_spec a b)
         | |- context [?a <=? ?b] => destruct (Z.leb_spec a b)
         end; cbn [orb andb negb]; try reflexivity; exfalso; lia.

(* >=M.m.p *)
Theorem cargo_ge_sound : cargo_sound (op_version_to_span pv go_tokGreaterEqual lo) CGreaterEq.
Proof.
  unfold cargo_sound. prep. unfold op_ge. change (v_sys lo) with SCargo.
  cbn [sys_eqb sys_index Z.eqb Pos.eqb andb bind]. rewrite W_lo_c. cbn [orb andb].
  unfold op_tail. rewrite set_tail_lo_c. change (v_sys lo) with SCargo.
  unfold needs_rebuild. cbn [sys_eqb sys_index Z.eqb Pos.eqb orb].
  change (set_tail (vset_build (clear_pre (vset_num lo (map (fun _ : Z => infinity) (v_num lo)))) []) infinity infinity)
    with (mk3c str infinity infinity infinity).
  unfold fin in *.
  rewrite new_span_3c by (unfold infinity in *; try lia; apply lex3_lt; lia).
  eexists. split; [reflexivity|]. intros u x y z C. split; [|apply in_span_release; apply C].
  rewrite (in_vec_3c _ _ _ _ _ _ _ _ _ _ u x y z C). spec_side u x y z C. arith u x y z C.
Qed.

(* <M.m.p *)
Theorem cargo_lt_sound : (M <> 0 \/ m <> 0 \/ p <> 0) -> cargo_sound (op_version_to_span pv go_tokLess lo) CLess.
Proof.
  intros NZ. unfold cargo_sound. prep. unfold all_v. cbn [v_num mk3c forallb].
  unfold wildcard. unfold fin in *.
  assert (A1 : (M =? -1) = false) by (apply Z.eqb_neq; lia). rewrite A1. cbn [andb orb].
  assert (A0 : (M =? 0) && ((m =? 0) && ((p =? 0) && true)) = false).
  { destruct (Z.eqb_spec M 0), (Z.eqb_spec m 0), (Z.eqb_spec p 0); simpl; auto. lia. }
  rewrite A0.
  unfold op_tail. cbn [min_version v_sys mk3c sys_eqb sys_index Z.eqb Pos.eqb v_user_num_count].
  unfold needs_rebuild. cbn [sys_eqb sys_index Z.eqb Pos.eqb orb v_sys set_tail].
  change (set_tail
       {| v_sys := SCargo; v_user_num_count := 3; v_is_prerelease := false; v_str := s_min_str;
          v_num := [0; 0; 0]; v_pre := [[48%N]]; v_build := []; v_ext := NoExt |} infinity infinity)
    with (min_cargo 3).
  assert (Hm1 : (m =? -1) = false) by (apply Z.eqb_neq; lia).
  assert (Hp1 : (p =? -1) = false) by (apply Z.eqb_neq; lia).
  cbn [map v_num mk3c vset_num vset_build]. unfold wildcard. rewrite A1, Hm1, Hp1.
  change (vset_build (vset_num lo [M; m; p]) []) with lo. rewrite set_tail_lo_c.
  rewrite new_span_min_c by lia.
  eexists. split; [reflexivity|]. intros u x y z C. split; [|apply in_span_release; apply C].
  rewrite (in_vec_min_c _ _ _ _ _ _ u x y z C). spec_side u x y z C. arith u x y z C.
Qed.

(* ^M.m.p, which is also what a comparator without operator means; all three shapes *)
Theorem cargo_caret_sound : cargo_sound (op_version_to_span pv go_tokCaret lo) CCaret.
Proof.
  unfold cargo_sound. prep. unfold major, minor, wildcard. cbn [v_num mk3c get_num Nat.eqb].
  unfold fin in *.
  assert (A1 : (M =? -1) = false) by (apply Z.eqb_neq; lia).
  destruct (Z.eqb_spec M 0) as [E0|N0]; cbn [andb].
  - destruct (Z.eqb_spec m 0) as [Em|Nm]; cbn [negb].
    + (* ^0.0.p : the single version *)
      change (clear_pre lo) with lo.
      assert (U : new_span lo false lo false = new_span_same lo false false).
      { unfold new_span_same.
        assert (W : nowild lo = true) by (eapply nowild_3; try reflexivity; lia).
        rewrite (major_nowild _ W), (set_tail_nowild _ 0 W (or_introl eq_refl)).
        unfold new_span. rewrite (major_nowild _ W), (set_tail_nowild _ 0 W (or_introl eq_refl)),
          (set_tail_nowild _ infinity W (or_intror eq_refl)). reflexivity. }
      rewrite U, new_span_3c_unit by lia.
      eexists. split; [reflexivity|]. intros u x y z C. split; [|apply in_span_release; apply C].
      rewrite (in_unit_3c _ _ _ _ _ _ u x y z C). spec_side u x y z C. arith u x y z C.
    + (* ^0.m.p with m > 0 : [0.m.p, 0.m.inf] *)
      change (clear_pre (set_patch lo infinity)) with (mk3c str M m infinity).
      rewrite new_span_3c by (unfold infinity in *; try lia; apply lex3_lt; lia).
      eexists. split; [reflexivity|]. intros u x y z C. split; [|apply in_span_release; apply C].
      rewrite (in_vec_3c _ _ _ _ _ _ _ _ _ _ u x y z C). spec_side u x y z C. arith u x y z C.
  - rewrite A1. change (caret_hi3 lo) with (mk3c str M infinity infinity).
    rewrite new_span_3c by (unfold infinity in *; try lia; apply lex3_lt; lia).
    eexists. split; [reflexivity|]. intros u x y z C. split; [|apply in_span_release; apply C].
    rewrite (in_vec_3c _ _ _ _ _ _ _ _ _ _ u x y z C). spec_side u x y z C. arith u x y z C.
Qed.

(* ~M.m.p *)
Theorem cargo_tilde_sound : cargo_sound (op_version_to_span pv go_tokTilde lo) CTilde.
Proof.
  unfold cargo_sound. prep. unfold major. cbn [v_num mk3c get_num].
  unfold fin in *.
  assert (H1 : (if (M =? 0) && true then set_patch lo infinity else set_patch lo infinity) = mk3c str M m infinity).
  { destruct ((M =? 0) && true); reflexivity. }
  rewrite H1. unfold op_tail. rewrite set_tail_lo_c. change (v_sys lo) with SCargo.
  unfold needs_rebuild. cbn [sys_eqb sys_index Z.eqb Pos.eqb orb].
  assert (H2 : set_tail (mk3c str M m infinity) infinity infinity = mk3c str M m infinity).
  { unfold set_tail. cbn [v_num mk3c at_least3 length Nat.max pad_to Nat.sub repeat app fill_from].
    rewrite !(proj2 (Z.eqb_neq _ infinity)) by lia. rewrite Z.eqb_refl. reflexivity. }
  rewrite H2.
  rewrite new_span_3c by (unfold infinity in *; try lia; apply lex3_lt; lia).
  eexists. split; [reflexivity|]. intros u x y z C. split; [|apply in_span_release; apply C].
  rewrite (in_vec_3c _ _ _ _ _ _ _ _ _ _ u x y z C). spec_side u x y z C. arith u x y z C.
Qed.

(* =M.m.p *)
Theorem cargo_eq_sound : cargo_sound (op_version_to_span pv go_tokEqual lo) CExact.
Proof.
  unfold cargo_sound. prep. rewrite W_lo_c. cbn [negb]. unfold fin in *.
  rewrite new_span_3c_unit by lia.
  eexists. split; [reflexivity|]. intros u x y z C. split; [|apply in_span_release; apply C].
  rewrite (in_unit_3c _ _ _ _ _ _ u x y z C). spec_side u x y z C. arith u x y z C.
Qed.

End Ops.
