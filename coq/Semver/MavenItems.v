(* The ComparableVersion item tree a parsed Maven element list stands for, and the domain of
   the C02 agreement theorem.  Definitions only. *)
From DepsDev Require Import Lib.Base Semver.Version Semver.Maven Semver.MavenParse Semver.MavenDomain
  Spec.MavenSpec Gen.SemverTables.
Local Open Scope Z_scope.

Definition item_of (e : mvn_elem) : item :=
  if is_num_elem e then IInt (Z.to_N (me_int e)) else IStr (alias (me_str e)).

(* an element attached by '-' opens a sub-list that takes everything after it *)
Fixpoint cont (t : list mvn_elem) : list item :=
  match t with
  | [] => []
  | e :: t' => if N.eqb (me_sep e) 45 then [IList (item_of e :: cont t')] else item_of e :: cont t'
  end.

Definition items_of (l : list mvn_elem) : item :=
  match l with
  | [] => IList []
  | e0 :: r => IList (item_of e0 :: cont r)
  end.

(* numerals: value not negative *)
Definition num_ok (e : mvn_elem) : bool := if is_num_elem e then 0 <=? me_int e else true.

(* the last element of the prefix has a value other than 0 (ComparableVersion drops trailing
   null items by value, the parser drops them by spelling: see F-C02-11) *)
Fixpoint last_val_nz (p : list mvn_elem) : bool :=
  match p with
  | [] => true
  | [e] => negb (me_int e =? 0)
  | _ :: t => last_val_nz t
  end.

(* tail elements that are not null items: a number other than 0, a qualifier other than the
   release-equivalent ones *)
Definition tail_nonnull (e : mvn_elem) : bool :=
  if is_num_elem e then negb (me_int e =? 0)
  else negb (qualifier_order (me_str e) =? maven_empty_qualifier).

(* ComparableVersion drops a leading 0 that is followed by sub-lists only (0, 0-alpha), which
   the element list keeps: such lists are left out of the theorem *)
Definition lone_zero (l : list mvn_elem) : bool :=
  match l with
  | [] => false
  | e0 :: r => (me_int e0 =? 0) && match fst (split_prefix r) with [] => true | _ => false end
  end.

(* domain of the agreement theorem *)
Definition c02_wide_b (l : list mvn_elem) : bool :=
  d_mvn_wide l && forallb num_ok l && negb (lone_zero l)
  && last_val_nz (fst (split_prefix (tl l))) && forallb tail_nonnull (mvn_tail l).

(* ---------- qualifier attached by '.' (domain of C02_maven_dotted_partial) ---------- *)
Definition dash1 (e : mvn_elem) : mvn_elem := {| me_sep := 45; me_str := me_str e; me_int := me_int e |}.
Definition dash_tail (t : list mvn_elem) : list mvn_elem :=
  match t with [] => [] | q :: t' => dash1 q :: t' end.

(* a qualifier attached by '.', not release-equivalent *)
Definition dotq_b (q : mvn_elem) : bool :=
  N.eqb (me_sep q) 46 && is_qual_elem q && (me_int q =? 0) && negb (qualifier_order (me_str q) =? maven_empty_qualifier).
Definition dtail_b (t : list mvn_elem) : bool :=
  match t with [] => true | q :: t' => dotq_b q && forallb tail_elem_ok t' end.

(* numbers only, or the qualifier after a '.', and no zero-spelled component right before it *)
Definition d_dot_b (l : list mvn_elem) : bool :=
  match l with
  | [] => false
  | e0 :: r =>
      N.eqb (me_sep e0) 0 && is_num_elem e0
      && last_not_zero (fst (split_prefix r)) && dtail_b (snd (split_prefix r))
  end.

(* the same version with the qualifier attached by '-' *)
Definition dashify (l : list mvn_elem) : list mvn_elem :=
  match l with
  | [] => []
  | e0 :: r => e0 :: fst (split_prefix r) ++ dash_tail (snd (split_prefix r))
  end.
