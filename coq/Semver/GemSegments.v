(* The Gem::Version segments a parsed RubyGems version stands for.  Definitions only. *)
From DepsDev Require Import Lib.Base Semver.Version Semver.Maven Semver.Gem Semver.GemDomain Spec.GemSpec.
Local Open Scope Z_scope.

Definition zint (z : Z) : seg := GInt (Z.to_N z).
Definition seg_of (e : gem_elem) : seg := if gcat e =? cat_numeric then zint (ge_int e) else GStr (ge_str e).

(* its numbers, then its prerelease elements *)
Definition segs_of (nums : list Z) (l : list gem_elem) : list seg := map zint nums ++ map seg_of l.
Definition gem_segments (v : version) : list seg := segs_of (v_num v) (gem_elems v).
