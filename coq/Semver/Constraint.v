(* Model of util/semver/constraint.go and match.go: ParseConstraint (constraint, orList,
   andList, value, setRange), ParseSetConstraint, Match/MatchVersion/MatchVersionPrerelease,
   IsSimple.  Definitions only.

   The lexer state of constraintParser is (remaining input, an error has been recorded,
   weight); every access of the Go code to the input is of the form str[pos:], so the
   remaining input replaces pos.  The first recorded error wins and only its presence is
   observable, so it is a boolean.
   strings.TrimSpace is modelled for ASCII white space (the case runner refuses inputs whose
   first or last byte is not ASCII). *)
From DepsDev Require Import Lib.Base Semver.Version Semver.Maven Semver.Gem Semver.Pep440 Semver.Compare
     Semver.Parse Semver.Token Semver.Span Semver.Interval Semver.Set Gen.SemverTables.
Local Open Scope Z_scope.

Record constraint := { c_str : bytes; c_sys : system; c_simple : bool; c_set : set }.

Record pst := { ps_rest : bytes; ps_err : bool; ps_weight : Z }.

Definition set_err (st : pst) : pst := {| ps_rest := ps_rest st; ps_err := true; ps_weight := ps_weight st |}.
Definition advance (st : pst) (n : nat) : pst :=
  {| ps_rest := skipn n (ps_rest st); ps_err := ps_err st; ps_weight := ps_weight st |}.
Definition add_weight (st : pst) (w : Z) : pst :=
  {| ps_rest := ps_rest st; ps_err := ps_err st; ps_weight := ps_weight st + w |}.

(* run r; an error return of the Go callee is handled by on_err, panics propagate *)
Definition catch {A B} (r : res A) (k : A -> res B) (on_err : res B) : res B :=
  match r with
  | Ok a => k a
  | Err _ => on_err
  | Panic p => Panic p
  | OutOfFuel => OutOfFuel
  end.

Definition is_space (c : N) : bool := N.eqb c 32 || ((9 <=? c)%N && (c <=? 13)%N).
Fixpoint trim_left (s : bytes) : bytes := match s with c :: t => if is_space c then trim_left t else s | [] => [] end.
Definition trim_space (s : bytes) : bytes := rev (trim_left (rev (trim_left s))).

Definition supports_and (s : system) : bool :=
  match s with SDefault | SNPM | SPyPI | SRubyGems => true | _ => false end.

Definition is_unop (typ : Z) : bool :=
  (typ =? go_tokEqual) || (typ =? go_tokGreater) || (typ =? go_tokGreaterEqual) || (typ =? go_tokLess)
  || (typ =? go_tokLessEqual) || (typ =? go_tokNotEqual) || (typ =? go_tokCaret) || (typ =? go_tokTilde)
  || (typ =? go_tokBacon).

Definition is_ver_or_wild (typ : Z) : bool := (typ =? go_tokVersion) || (typ =? go_tokWildcard).

Definition s_ne : bytes := [33;61]%N.                       (* != *)
Definition s_ge000 : bytes := [62;61;48;46;48;46;48]%N.     (* >=0.0.0 *)
Definition s_zero : bytes := [48%N].
Definition s_zero3 : bytes := [48;46;48;46;48]%N.

(* newVersion(sys, str, ext, val, nil): the freshly made Version never has an extension *)
Definition new_version (sys : system) (str : bytes) (val : Z) : version :=
  {| v_sys := sys; v_user_num_count := 0; v_is_prerelease := false; v_str := str;
     v_num := [val; val; val]; v_pre := []; v_build := []; v_ext := NoExt |}.

Section WithParser.
Variable parse_version : system -> bool -> bytes -> res parse_out.

Notation parse_pub := (parse_public parse_version).
Notation op_to_span := (op_version_to_span parse_version).

(* ---------------------------------------------------------------- value *)
(* result: spans, hyphenated, valid, state *)
Definition value (sys : system) (st : pst) : res (list span * bool * bool * pst) :=
  t <- token sys (ps_rest st);;
  let '(typ, tok, i) := t in
  let none (s : pst) : res (list span * bool * bool * pst) := Ok ([], false, false, s) in
  if typ =? go_tokEOF then none st
  else if typ =? go_tokInvalid then none (set_err st)
  else if is_unop typ then
    t2 <- token sys (skipn i (ps_rest st));;
    let '(typ2, tok2, j) := t2 in
    if negb (is_ver_or_wild typ2) then none (set_err st) else
    po <- parse_pub sys tok2;;
    if po_err po then none (set_err st) else
    version <- opt_version (po_v po);;
    let st1 := advance st (i + j) in
    let k (spans : list span) :=
      let st2 := add_weight st1 1 in
      Ok (spans, false, true, if typ =? go_tokEqual then st2 else add_weight st2 1) in
    if bytes_eqb tok s_ne then
      catch (exclude_to_spans parse_version version) (fun lr => k [fst lr; snd lr]) (none (set_err st1))
    else
      catch (op_to_span typ version) (fun s => k [s]) (none (set_err st1))
  else if is_ver_or_wild typ then
    t2 <- token sys (skipn i (ps_rest st));;
    let '(typ2, _, j) := t2 in
    if typ2 =? go_tokInvalid then none (set_err st) else
    if negb (typ2 =? go_tokHyphen) then
      po <- parse_pub sys tok;;
      let st1 := add_weight st 1 in
      let st2 := match po_v po with Some v => if is_wildcard_v v then add_weight st1 1 else st1 | None => st1 end in
      let st3 := advance (if po_err po then set_err st2 else st2) i in
      match po_v po with
      | None => Ok ([], false, true, st3)
      | Some version =>
          let op_type := if sys_eqb sys SCargo && (typ =? go_tokVersion) then go_tokCaret else go_tokEmpty in
          catch (op_to_span op_type version) (fun s => Ok ([s], false, true, st3)) (none (set_err st3))
      end
    else
      t3 <- token sys (skipn (i + j) (ps_rest st));;
      let '(typ3, tok3, k) := t3 in
      if negb (is_ver_or_wild typ3) then none (set_err st) else
      plo <- parse_pub sys tok;;
      phi <- parse_pub sys tok3;;
      let st1 := if po_err plo || po_err phi then set_err st else st in
      let st2 := add_weight (advance st1 (i + j + k)) 2 in
      match po_v plo, po_v phi with
      | Some lo, Some hi =>
          c <- compare hi lo;;
          if c <? 0 then none (set_err st2) else
          catch (new_span lo false (fill_v hi infinity) false)
                (fun s => Ok ([s], true, true, st2)) (none (set_err st2))
      | _, _ => Ok ([], true, true, st2)
      end
  else none st.

(* ---------------------------------------------------------------- andList *)
Definition zero_set : set := {| set_sys := SDefault; set_span := [] |}.
Definition with_spans (s : set) (l : list span) : set := {| set_sys := set_sys s; set_span := l |}.

(* result: set, ok, state.  first / lastWasComma as in the Go loop *)
Fixpoint and_loop (fuel : nat) (sys : system) (cur : set) (first last_comma : bool) (st : pst)
  : res (set * bool * pst) :=
  match fuel with
  | O => OutOfFuel
  | S f =>
      r <- value sys st;;
      let '(spans, hyphenated, ok, st1) := r in
      if negb ok then Ok (cur, negb first, if last_comma then set_err st1 else st1) else
      (* first / not first *)
      r2 <- (if first then Ok (Some (with_spans cur spans, st1), hyphenated)
             else if hyphenated then Ok (None, false)
             else catch (set_intersect cur {| set_sys := SDefault; set_span := spans |})
                        (fun s => Ok (Some (s, st1), false))
                        (Ok (Some (cur, set_err st1), true)));;
      match r2 with
      | (None, _) => Ok (cur, negb first, set_err st1)               (* unexpected range after version: break *)
      | (Some (cur1, st2), stop) =>
          if first && stop then Ok (cur1, true, st2)                  (* a hyphenated range ends the list *)
          else if negb first && stop then Ok (cur1, false, st2)       (* Intersect failed: return set, false *)
          else
            t <- token sys (ps_rest st2);;
            let '(typ, _, i) := t in
            let '(st3, comma) :=
              if typ =? go_tokEOF then (st2, false)
              else if typ =? go_tokInvalid then (set_err st2, false)
              else if typ =? go_tokComma then (advance st2 i, true)
              else if typ =? go_tokOr then (st2, false)
              else (if negb (supports_and sys) || sys_eqb sys SRubyGems then set_err st2 else st2, false) in
            and_loop f sys cur1 false comma st3
      end
  end.

(* ---------------------------------------------------------------- setRange (Maven, NuGet) *)
Definition set_range (sys : system) (st : pst) : res (set * bool * pst) :=
  let fail (s : pst) := Ok (zero_set, false, s) in
  let done (sp : span) (s : pst) := Ok ({| set_sys := sys; set_span := [sp] |}, true, s) in
  t <- token sys (ps_rest st);;
  let '(typ, tok, i) := t in
  if typ =? go_tokEOF then fail st
  else if typ =? go_tokInvalid then fail (set_err st)
  else if (typ =? go_tokWildcard) && negb (sys_eqb sys SNuGet) then fail (set_err st)
  else if is_ver_or_wild typ then
    po <- parse_pub sys tok;;
    if po_err po then fail (set_err st) else
    v <- opt_version (po_v po);;
    let st1 := add_weight st (if is_wildcard_v v then 2 else 1) in
    if sys_eqb sys SMaven then
      (* soft requirement: >= 0.0.0 whatever the version; the error of opVersionToSpan is dropped *)
      let sp := match op_to_span go_tokGreaterEqual (new_version sys tok 0) with Ok s => Ok s | Err _ => Ok empty_span
                                                                                | Panic p => Panic p | OutOfFuel => OutOfFuel end in
      s <- sp;; done s (advance st1 i)
    else if sys_eqb sys SNuGet then
      let sp := match op_to_span go_tokGreaterEqual v with Ok s => Ok s | Err _ => Ok empty_span
                                                          | Panic p => Panic p | OutOfFuel => OutOfFuel end in
      s <- sp;; done s (advance st1 i)
    else fail (set_err st1)
  else if typ =? go_tokLbracket then
    let st1 := advance (add_weight st 2) i in
    let min_open0 := bytes_eqb tok [40%N] in
    t1 <- token sys (ps_rest st1);;
    let '(typ1, tok1, i1) := t1 in
    (* optional lower version *)
    r <- (if typ1 =? go_tokVersion then
            po <- parse_pub sys tok1;;
            if po_err po then Ok None else
            v <- opt_version (po_v po);;
            let st2 := advance st1 i1 in
            t2 <- token sys (ps_rest st2);;
            Ok (Some (Some v, t2, st2))
          else Ok (Some (None, t1, st1)));;
    match r with
    | None => fail (set_err st1)
    | Some (min_o, (typ2, tok2, i2), st2) =>
        r0 <- (match min_o with
               | Some m => Ok (m, min_open0)
               | None => po <- parse_pub sys s_zero;; m <- opt_version (po_v po);; Ok (m, false)
               end);;
        let '(mn, min_open) := r0 in
        if negb ((typ2 =? go_tokComma) || (typ2 =? go_tokRbracket)) then fail (set_err st2) else
        let st3 := advance st2 i2 in
        if typ2 =? go_tokRbracket then
          let st4 := if min_open || bytes_eqb tok2 [41%N] then set_err st3 else st3 in
          catch (new_span_same mn false false) (fun s => done s st4) (fail (set_err st4))
        else
          t3 <- token sys (ps_rest st3);;
          let '(typ3, tok3, i3) := t3 in
          r1 <- (if typ3 =? go_tokVersion then
                   po <- parse_pub sys tok3;;
                   if po_err po then Ok None else
                   v <- opt_version (po_v po);;
                   let st4 := advance st3 i3 in
                   t4 <- token sys (ps_rest st4);;
                   Ok (Some (Some v, t4, st4))
                 else Ok (Some (None, t3, st3)));;
          match r1 with
          | None => fail (set_err st3)
          | Some (max_o, (typ4, tok4, i4), st4) =>
              let '(mx, max_open) :=
                match max_o with
                | Some m => (m, bytes_eqb tok4 [41%N])
                | None => (new_version sys s_inf3 infinity, false)
                end in
              if negb (typ4 =? go_tokRbracket) then fail (set_err st4) else
              catch (new_span mn min_open mx max_open) (fun s => done s (advance st4 i4)) (fail (set_err st4))
          end
    end
  else fail st.

Definition and_list (sys : system) (st : pst) : res (set * bool * pst) :=
  if sys_eqb sys SMaven || sys_eqb sys SNuGet then set_range sys st
  else and_loop (S (length (ps_rest st))) sys zero_set true false st.

(* ---------------------------------------------------------------- orList *)
Fixpoint or_loop (fuel : nat) (sys : system) (spans : list span) (last_or : bool) (st : pst)
  : res (option (list span) * pst) :=
  match fuel with
  | O => OutOfFuel
  | S f =>
      r <- and_list sys st;;
      let '(s, ok, st1) := r in
      if negb ok then
        if last_or then Ok (None, set_err st1) else Ok (Some spans, st1)
      else
        let spans1 := spans ++ set_span s in
        if sys_eqb sys SNuGet && (1 <? length spans1)%nat then Ok (None, set_err st1) else
        t <- token sys (ps_rest st1);;
        let '(typ, _, i) := t in
        let or_token := if sys_eqb sys SMaven || sys_eqb sys SNuGet then go_tokComma else go_tokOr in
        if typ =? or_token then or_loop f sys spans1 true (advance st1 i)
        else Ok (Some spans1, st1)
  end.

Definition or_list (sys : system) (st : pst) : res (set * pst) :=
  r <- or_loop (S (length (ps_rest st))) sys [] false st;;
  match r with
  | (None, st1) => Ok (zero_set, st1)
  | (Some spans, st1) =>
      catch (canon_spans spans) (fun sp => Ok ({| set_sys := sys; set_span := sp |}, st1))
            (Ok (zero_set, set_err st1))
  end.

(* ---------------------------------------------------------------- constraint *)
Definition eof_check (sys : system) (st : pst) : res pst :=
  t <- token sys (ps_rest st);;
  let '(typ, _, _) := t in
  Ok (if typ =? go_tokEOF then st else set_err st).

Definition parse_constraint (sys : system) (str0 : bytes) : res constraint :=
  let str := trim_space str0 in
  match str, sys with
  | [], SNuGet => Err E_syntax
  | _, _ =>
      let lex_str := match str with [] => s_ge000 | _ => str end in
      if sys_eqb sys SGo then
        po <- parse_pub SGo lex_str;;
        if po_err po then Err E_parse else
        lo <- opt_version (po_v po);;
        hi1 <- (if major lo =? 0 then inc_n lo 0 else Ok lo);;
        hi2 <- inc_n hi1 0;;
        let hi := set_patch (set_minor hi2 0) 0 in
        s <- new_span lo false hi true;;
        Ok {| c_str := str; c_sys := sys; c_simple := true; c_set := {| set_sys := SGo; set_span := [s] |} |}
      else
        st0 <- (let st := {| ps_rest := lex_str; ps_err := false; ps_weight := 0 |} in
                if sys_eqb sys SPyPI then
                  t <- token sys lex_str;;
                  let '(typ, _, _) := t in Ok (if typ =? go_tokVersion then set_err st else st)
                else Ok st);;
        r <- or_list sys st0;;
        let '(s, st1) := r in
        r2 <- (match set_span s with
               | [] => Ok (zero_set, st1)
               | _ => if ps_err st1 then Ok (s, st1) else st2 <- eof_check sys st1;; Ok (s, st2)
               end);;
        let '(cset, st2) := r2 in
        st3 <- eof_check sys st2;;
        if ps_err st3 then Err E_syntax
        else Ok {| c_str := str; c_sys := sys; c_simple := (ps_weight st3 =? 1); c_set := cset |}
  end.

(* ---------------------------------------------------------------- ParseSetConstraint *)
Definition parse_set_constraint (sys : system) (str0 : bytes) : res constraint :=
  let str := trim_space str0 in
  r <- parse_set parse_version sys str;;
  Ok {| c_str := str; c_sys := sys; c_simple := snd r; c_set := fst r |}.

End WithParser.

(* ---------------------------------------------------------------- matching *)
(* strings.ContainsAny(c.str, [(,]* ) *)
Definition contains_range_char (s : bytes) : bool :=
  existsb (fun c => N.eqb c 91 || N.eqb c 40 || N.eqb c 44 || N.eqb c 93 || N.eqb c 42) s.

Definition constraint_match (c : constraint) (v : version) : res bool :=
  let prerelease := sys_eqb (c_sys c) SNuGet && negb (contains_range_char (c_str c)) in
  dev <- (if sys_eqb (c_sys c) SPyPI && bytes_eqb (c_str c) [] then
            match v_ext v with
            | Pep440Ext (Some p) => Ok (p_dev p)
            | Pep440Ext None => Ok false
            | _ => Ok false                            (* comma-ok assertion since fix 74fc0cd: a version of
                                                          another system has no PEP 440 extension and is not a
                                                          dev release (before: plain assertion, panic) *)
            end
          else Ok false);;
  if dev then Ok false else set_match_version (c_set c) v prerelease.

Definition match_version (c : constraint) (v : version) : res bool :=
  if is_wildcard_v v then Ok false else constraint_match c v.

Definition match_version_prerelease (c : constraint) (v : version) : res bool :=
  if is_wildcard_v v then Ok false else set_match_version (c_set c) v true.

Definition is_simple (c : constraint) : bool := c_simple c.

(* Constraint.Match(version string): parse, false on error, then match (a wildcard version is
   NOT refused here, unlike in MatchVersion).  resolve.MatchRequirement for npm keeps the
   versions v with constraint.Match(v.Version). *)
Definition match_string (pv : system -> bool -> bytes -> res parse_out) (c : constraint) (s : bytes) : res bool :=
  po <- parse_public pv (c_sys c) s;;
  if po_err po then Ok false else
  v <- opt_version (po_v po);;
  constraint_match c v.
