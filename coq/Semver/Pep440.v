(* Model of util/semver/pep440.go: rank, comparison, canonical printer.
   (The parser pep440Extension.init is in Pep440Parse.v.)  Definitions only. *)
From DepsDev Require Import Lib.Base Semver.Version.
Local Open Scope Z_scope.

Definition zero_pep440 : pep440 :=
  {| p_epoch := 0; p_pre := []; p_prenum := 0; p_post := false; p_postnum := 0;
     p_dev := false; p_devnum := 0; p_local := [] |}.

Definition rk_dev : Z := 0.
Definition rk_alpha : Z := 1.
Definition rk_beta : Z := 2.
Definition rk_prerelease : Z := 3.
Definition rk_empty : Z := 4.
Definition rk_local : Z := 5.
Definition rk_post : Z := 6.

Definition pep_rank (p : pep440) : Z :=
  if bytes_eqb (p_pre p) [97%N] then rk_alpha
  else if bytes_eqb (p_pre p) [98%N] then rk_beta
  else if bytes_eqb (p_pre p) [114%N; 99%N] then rk_prerelease
  else if p_post p then rk_post
  else if p_dev p then rk_dev
  else if negb (bytes_eqb (p_local p) []) then rk_local
  else rk_empty.

(* pep440LocalElem: split at the first '.' *)
Fixpoint local_elem (s : bytes) (acc : bytes) : bytes * bytes :=
  match s with
  | [] => (rev acc, [])
  | c :: t => if N.eqb c 46 then (rev acc, t) else local_elem t (c :: acc)
  end.

Definition all_digits (s : bytes) : bool :=
  forallb is_digit s && negb (bytes_eqb s []).

(* strconv.ParseUint(s,10,64) on an all-digit string with the error ignored: saturates *)
Definition parse_uint_sat (s : bytes) : Z :=
  match digits_val s 0 with
  | Some n => if 18446744073709551615 <? n then 18446744073709551615 else n
  | None => 0
  end.

Definition local_elem_compare (a b : bytes) : Z :=
  let ad := all_digits a in
  let bd := all_digits b in
  if negb (Bool.eqb ad bd) then (if ad then 1 else -1)
  else if ad then sgnZ (parse_uint_sat a) (parse_uint_sat b)
  else bytes_compare a b.

Definition count_dots (s : bytes) : Z := Z.of_nat (length (filter (fun c => N.eqb c 46) s)).

Fixpoint local_loop (n : nat) (pl ql : bytes) : Z :=
  match n with
  | O => 0
  | S n' =>
      let '(pe, pl') := local_elem pl [] in
      let '(qe, ql') := local_elem ql [] in
      let s := local_elem_compare pe qe in
      if negb (s =? 0) then s else local_loop n' pl' ql'
  end.

Definition local_compare (pl ql : bytes) : Z :=
  if bytes_eqb pl ql then 0
  else
    let pn := count_dots pl + 1 in
    let qn := count_dots ql + 1 in
    let s := local_loop (Z.to_nat pn) pl ql in
    if negb (s =? 0) then s else sgnZ pn qn.

Definition pep_tail_compare (rank : Z) (p q : pep440) : Z :=
  let pre_part := if (rank =? rk_alpha) || (rank =? rk_beta) || (rank =? rk_prerelease)
                  then sgnZ (p_prenum p) (p_prenum q) else 0 in
  if negb (pre_part =? 0) then pre_part
  else
    let local_part := if (rank =? rk_alpha) || (rank =? rk_beta) || (rank =? rk_prerelease) || (rank =? rk_local)
                      then local_compare (p_local p) (p_local q) else 0 in
    if negb (local_part =? 0) then local_part
    else
      let post_part := if (rank =? rk_alpha) || (rank =? rk_beta) || (rank =? rk_prerelease) || (rank =? rk_local) || (rank =? rk_post)
                       then sgnZ (p_postnum p) (p_postnum q) else 0 in
      if negb (post_part =? 0) then post_part
      else
        if p_dev p || p_dev q then
          if negb (Bool.eqb (p_dev p) (p_dev q)) then (if p_dev p then -1 else 1)
          else sgnZ (p_devnum p) (p_devnum q)
        else 0.

Definition pep_compare (na nb : list Z) (pe qe : option pep440) : Z :=
  let p := match pe with Some x => x | None => zero_pep440 end in
  let q := match qe with Some x => x | None => zero_pep440 end in
  if negb (p_epoch p =? p_epoch q) then sgnZ (p_epoch p) (p_epoch q)
  else
    let c := compare_nums na nb in
    if negb (c =? 0) then c
    else match pe, qe with
         | None, None => 0
         | _, _ =>
             let pr := pep_rank p in
             let qr := pep_rank q in
             if negb (pr =? qr) then sgnZ pr qr else pep_tail_compare pr p q
         end.

(* canon *)
Definition pep_canon (nums : list Z) (e : option pep440) : bytes :=
  match e with
  | None => print_nums nums
  | Some x =>
      (if p_epoch x =? 0 then [] else Z_to_dec (p_epoch x) ++ [33%N]) ++
      print_nums nums ++
      (match p_pre x with [] => [] | pre => pre ++ Z_to_dec (p_prenum x) end) ++
      (if p_post x then [46; 112; 111; 115; 116]%N ++ Z_to_dec (p_postnum x) else []) ++
      (if p_dev x then [46; 100; 101; 118]%N ++ Z_to_dec (p_devnum x) else []) ++
      (match p_local x with [] => [] | l => 43%N :: l end)
  end.
