(* Model of util/semver/maven.go: element comparison and canonical printer.
   (The parser mavenExtension.init is in MavenParse.v.)  Definitions only. *)
From DepsDev Require Import Lib.Base Semver.Version Gen.SemverTables Gen.MavenVariants.
Local Open Scope Z_scope.

(* version categories (extension.go); versionNumeric must be > versionQualifier *)
Definition cat_separator : Z := 0.
Definition cat_unknown : Z := 1.
Definition cat_star : Z := 2.
Definition cat_qualifier : Z := 3.
Definition cat_numeric : Z := 4.
Definition cat_eof : Z := 5.

(* mavenCategory of a string: looks at the first rune only *)
Definition maven_category (s : bytes) : Z :=
  match s with
  | [] => cat_eof
  | c :: t =>
      if is_digit c then cat_numeric
      else if (N.eqb c 46) || (N.eqb c 45) then cat_separator
      else match s with
           | 226%N :: 136%N :: 158%N :: _ => cat_numeric     (* the infinity sign *)
           | _ => cat_qualifier
           end
  end.

(* mavenVersionQualifierOrder[s]: 0 for strings not in the map (Go map default) *)
Fixpoint qualifier_order_in (tbl : list (bytes * Z)) (s : bytes) : Z :=
  match tbl with
  | [] => 0
  | (k, v) :: t => if bytes_eqb k s then v else qualifier_order_in t s
  end.
Definition qualifier_order (s : bytes) : Z := qualifier_order_in maven_qualifier_order s.

Definition sgn_str (a b : bytes) : Z := bytes_compare a b.

Definition mvn_elem_eqb (a b : mvn_elem) : bool :=
  N.eqb (me_sep a) (me_sep b) && bytes_eqb (me_str a) (me_str b) && (me_int a =? me_int b).

Definition maven_pad (sep : N) : mvn_elem :=
  if N.eqb sep 45 then {| me_sep := 45; me_str := []; me_int := 0 |}
  else {| me_sep := 46; me_str := [48%N]; me_int := 0 |}.

(* mavenUnknownQualifierCompare; None = the explicit panic(bCategory) *)
Definition maven_unknown_qualifier_compare (a b : mvn_elem) (a_order b_cat : Z) : option Z :=
  if b_cat =? cat_qualifier then
    let b_order := qualifier_order (me_str b) in
    if a_order =? b_order then
      if negb (N.eqb (me_sep a) (me_sep b)) then Some (Z.of_N (me_sep b) - Z.of_N (me_sep a))
      else Some (sgn_str (me_str a) (me_str b))
    else Some (sgnZ a_order b_order)
  else if b_cat =? cat_eof then Some (sgnZ a_order maven_empty_qualifier)
  else if b_cat =? cat_numeric then Some (-1)
  else None.

Definition compare_maven_qualifier (a b : bytes) : Z :=
  let ao := qualifier_order a in
  let bo := qualifier_order b in
  if (ao <? 0) || (bo <? 0) then sgnZ ao bo else sgn_str a b.

(* Whether equal numeric elements continue with the next element (the repaired code) or
   return 0 at once (F-C01-2, the code as found). *)
Definition maven_fix_numeric_continue : bool := true.

(* One step of the loop in mavenExtension.compare.  Result: None = continue. *)
Inductive step_res := Continue | Return (z : Z) | PanicStep.

Definition maven_step (ao bo : option mvn_elem) : step_res :=
  match ao, bo with
  | None, None => Continue
  | _, _ =>
      let a := match ao, bo with Some a, _ => a | None, Some b => maven_pad (me_sep b) | None, None => maven_pad 0 end in
      let b := match bo, ao with Some b, _ => b | None, Some a => maven_pad (me_sep a) | None, None => maven_pad 0 end in
      let ac := match ao with Some a => maven_category (me_str a) | None => cat_eof end in
      let bc := match bo with Some b => maven_category (me_str b) | None => cat_eof end in
      if mvn_elem_eqb a b then Continue
      else
        let a_unknown := (ac =? cat_qualifier) && (maven_empty_qualifier <? qualifier_order (me_str a)) in
        if a_unknown then
          match maven_unknown_qualifier_compare a b (qualifier_order (me_str a)) bc with
          | Some r => Return r | None => PanicStep end
        else
          let b_unknown := (bc =? cat_qualifier) && (maven_empty_qualifier <? qualifier_order (me_str b)) in
          if b_unknown then
            match maven_unknown_qualifier_compare b a (qualifier_order (me_str b)) ac with
            | Some r => Return (- r) | None => PanicStep end
          else
            let ac := if ac =? cat_eof then cat_qualifier else ac in
            let bc := if bc =? cat_eof then cat_qualifier else bc in
            if bc <? ac then Return 1
            else if ac <? bc then Return (-1)
            else if ac =? cat_numeric then
              if negb (N.eqb (me_sep a) (me_sep b)) then Return (Z.of_N (me_sep a) - Z.of_N (me_sep b))
              else if maven_fix_numeric_continue && (sgnZ (me_int a) (me_int b) =? 0) then Continue
              else Return (sgnZ (me_int a) (me_int b))
            else
              if negb (N.eqb (me_sep a) (me_sep b)) then Return (Z.of_N (me_sep b) - Z.of_N (me_sep a))
              else let c := compare_maven_qualifier (me_str a) (me_str b) in
                   if c =? 0 then Continue else Return c
  end.

(* The loop; Ok None = ran to the end without returning. *)
Fixpoint maven_loop_l (xs : list mvn_elem) : res (option Z) :=
  match xs with
  | [] => Ok None
  | x :: xs' =>
      match maven_step (Some x) None with
      | Continue => maven_loop_l xs'
      | Return r => Ok (Some r)
      | PanicStep => Panic PExplicit
      end
  end.
Fixpoint maven_loop_r (ys : list mvn_elem) : res (option Z) :=
  match ys with
  | [] => Ok None
  | y :: ys' =>
      match maven_step None (Some y) with
      | Continue => maven_loop_r ys'
      | Return r => Ok (Some r)
      | PanicStep => Panic PExplicit
      end
  end.
Fixpoint maven_loop (xs ys : list mvn_elem) : res (option Z) :=
  match xs, ys with
  | [], _ => maven_loop_r ys
  | _, [] => maven_loop_l xs
  | x :: xs', y :: ys' =>
      match maven_step (Some x) (Some y) with
      | Continue => maven_loop xs' ys'
      | Return r => Ok (Some r)
      | PanicStep => Panic PExplicit
      end
  end.

Definition maven_compare (xs ys : list mvn_elem) : res Z :=
  match maven_loop xs ys with
  | Ok (Some r) => Ok r
  | Ok None => Ok 0     (* every element, padding included, compared equal *)
  | Err e => Err e
  | Panic p => Panic p
  | OutOfFuel => OutOfFuel
  end.

(* canon: elements joined by their separators *)
Fixpoint maven_canon_from (first : bool) (l : list mvn_elem) : bytes :=
  match l with
  | [] => []
  | e :: t => (if first then [] else [me_sep e]) ++ me_str e ++ maven_canon_from false t
  end.
(* head_sep: whether a non-zero separator of the first element is printed (the repair of F-C10-2)
   or never (the code as found).  The variant in the tree is read by gotables. *)
Definition maven_canon_with (head_sep : bool) (l : list mvn_elem) : bytes :=
  match l with
  | [] => []
  | e :: t =>
      (if head_sep && negb (N.eqb (me_sep e) 0) then [me_sep e] else []) ++ me_str e ++ maven_canon_from false t
  end.
Definition maven_canon (l : list mvn_elem) : bytes := maven_canon_with go_mvn_canon_head_sep l.
