(* C04 for the RubyGems parser model (GemParse.v): possibleVersionString, the RubyGems path of
   versionParser.version and gemExtension.init are total -- the index in the zero-trimming loop
   is always in range and the fuel of the model's loops (numbers, metadata, element scan) always
   suffices -- for ALL byte strings and both variants of the trimming loop. *)
From Coq Require Import Lia.
From DepsDev Require Import Lib.Base Lib.Order Semver.Version Semver.Maven Semver.Gem Semver.GemDomain Semver.MavenParse
  Semver.GemParse Semver.Compare Semver.Gem_proofs Semver.MavenTotal_proofs Gen.SemverTables.
Local Open Scope Z_scope.

(* ------------------------------------------------------------------ the lexer consumes what it accepts *)
(* every byte of the classes the parser loops over is a version-string byte of the regenerated
   byteType table, so lexer.next advances over it *)
Lemma alnumh_vs_table :
  forallb (fun c => implb (r_is_alnumh (Z.of_N c)) (is_vs c)) (map N.of_nat (seq 0 128)) = true.
Proof. vm_compute. reflexivity. Qed.

Lemma alnumh_vs c : r_is_alnumh (Z.of_N c) = true -> is_vs c = true.
Proof.
  intros H.
  assert (B : (c < 128)%N).
  { unfold r_is_alnumh, r_is_alnum, r_is_digit, r_is_alpha in H.
    repeat (apply orb_true_iff in H; destruct H as [H|H]);
      repeat (apply andb_true_iff in H; destruct H as [H ?]);
      repeat match goal with X : (_ <=? _) = true |- _ => apply Z.leb_le in X | X : (_ =? _) = true |- _ => apply Z.eqb_eq in X end; lia. }
  pose proof alnumh_vs_table as T. rewrite forallb_forall in T.
  assert (I : In c (map N.of_nat (seq 0 128))).
  { apply in_map_iff. exists (N.to_nat c). split; [apply N2Nat.id|]. apply in_seq. lia. }
  specialize (T c I). rewrite H in T. exact T.
Qed.

Lemma digit_vs c : r_is_digit (Z.of_N c) = true -> is_vs c = true.
Proof. intros H. apply alnumh_vs. unfold r_is_alnumh, r_is_alnum. rewrite H. apply orb_true_r. Qed.

Lemma lx_next_lprev st : lprev (snd (lx_next st)) = lrest st.
Proof. unfold lx_next. destruct (lrest st) as [|c t]; [reflexivity|]. destruct (is_vs c); reflexivity. Qed.

Lemma lx_next_le st : (length (lrest (snd (lx_next st))) <= length (lrest st))%nat.
Proof. unfold lx_next. destruct (lrest st) as [|c t]; simpl; [lia|]. destruct (is_vs c); simpl; lia. Qed.

Lemma lx_back_next st : lrest (lx_back (snd (lx_next st))) = lrest st.
Proof. unfold lx_back. simpl. apply lx_next_lprev. Qed.

(* characters returned + characters left = characters before *)
Lemma lx_while_len f (Hf : forall c, f (Z.of_N c) = true -> is_vs c = true) fuel : forall st acc,
  (length (fst (lx_while f fuel st acc)) + length (lrest (snd (lx_while f fuel st acc))) =
   length acc + length (lrest st))%nat.
Proof.
  induction fuel as [|k IH]; intros st acc; simpl.
  - rewrite rev_length. reflexivity.
  - destruct (lrest st) as [|c t] eqn:R.
    + assert (E : lx_next st = (r_eof, {| lrest := []; lprev := []; lerr := lerr st |})) by (unfold lx_next; rewrite R; reflexivity).
      rewrite E. destruct (f r_eof); simpl; rewrite rev_length; reflexivity.
    + destruct (is_vs c) eqn:V.
      * assert (E : lx_next st = (Z.of_N c, {| lrest := t; lprev := c :: t; lerr := lerr st |})) by (unfold lx_next; rewrite R, V; reflexivity).
        rewrite E. destruct (f (Z.of_N c)).
        -- rewrite IH. simpl. lia.
        -- simpl. rewrite rev_length. reflexivity.
      * assert (E : lx_next st = (Z.of_N c, {| lrest := c :: t; lprev := c :: t; lerr := true |})) by (unfold lx_next; rewrite R, V; reflexivity).
        rewrite E. destruct (f (Z.of_N c)) eqn:F; [rewrite (Hf c F) in V; discriminate|].
        simpl. rewrite rev_length. reflexivity.
Qed.

(* both positions the lexer remembers stay inside the input *)
Definition bnd (n : nat) (st : lx) : Prop := (length (lrest st) <= n /\ length (lprev st) <= n)%nat.

Lemma bnd_next n st : bnd n st -> bnd n (snd (lx_next st)).
Proof.
  intros [A B]. split; [pose proof (lx_next_le st); lia | rewrite lx_next_lprev; exact A].
Qed.
Lemma bnd_back n st : bnd n st -> bnd n (lx_back st).
Proof. intros [A B]. split; exact B. Qed.
Lemma bnd_err n st : bnd n st -> bnd n (lx_set_err st).
Proof. intros H. exact H. Qed.

Lemma bnd_while f n fuel : forall st acc, bnd n st -> bnd n (snd (lx_while f fuel st acc)).
Proof.
  induction fuel as [|k IH]; intros st acc H; simpl; auto.
  pose proof (bnd_next n st H) as N1. destruct (lx_next st) as [r st'] eqn:E. simpl in N1.
  destruct (f r); [|apply bnd_back; auto].
  destruct (lrest st); [apply bnd_back; auto | apply IH; auto].
Qed.

(* ------------------------------------------------------------------ number, element *)
Lemma gem_number_spec n st nums : bnd n st ->
  bnd n (snd (gem_number st nums)) /\
  (length (lrest (snd (gem_number st nums))) <= length (lrest st))%nat /\
  (forall x, fst (gem_number st nums) = Some x -> length (lrest (snd (gem_number st nums))) < length (lrest st))%nat.
Proof.
  intros B. unfold gem_number.
  pose proof (lx_while_len r_is_digit digit_vs (S (length (lrest st))) st []) as L.
  pose proof (bnd_while r_is_digit n (S (length (lrest st))) st [] B) as BW.
  destruct (lx_while r_is_digit (S (length (lrest st))) st []) as [ds st1]. simpl in L, BW.
  destruct ds as [|d ds'].
  - simpl in *. split; [exact BW|]. split; [lia | intros x X; discriminate].
  - simpl in L. destruct (parse_num (d :: ds')); simpl.
    + split; [exact BW|]. split; [lia | intros x X; lia].
    + split; [exact BW|]. split; [lia | intros x X; discriminate].
Qed.

Lemma gem_elem_tok_spec n st : bnd n st ->
  bnd n (snd (gem_elem_tok st)) /\
  (forall x, fst (gem_elem_tok st) = Some x -> length (lrest (snd (gem_elem_tok st))) < length (lrest st))%nat.
Proof.
  intros B. unfold gem_elem_tok.
  pose proof (lx_while_len r_is_alnumh alnumh_vs (S (length (lrest st))) st []) as L.
  pose proof (bnd_while r_is_alnumh n (S (length (lrest st))) st [] B) as BW.
  destruct (lx_while r_is_alnumh (S (length (lrest st))) st []) as [s st1]. simpl in L, BW.
  destruct s as [|d s'].
  - unfold lx_peek. pose proof (bnd_back n _ (bnd_next n st1 BW)) as BB.
    destruct (lx_next st1) as [r st2]. simpl in BB. simpl.
    split; [destruct (r =? 46); auto | intros x X; destruct (r =? 46); discriminate].
  - simpl. split; auto. intros x _. simpl in L. lia.
Qed.

(* ------------------------------------------------------------------ the two fuelled loops of version() *)
Lemma more_nums_spec n fuel : forall r st nums, bnd n st -> (length (lrest st) < fuel)%nat ->
  exists r' st' nums', gem_more_nums fuel r st nums = Ok (r', st', nums') /\ bnd n st'.
Proof.
  induction fuel as [|f IH]; intros r st nums B F; [exfalso; lia|].
  simpl. destruct (r =? 46); [|eauto].
  destruct (gem_number_spec n st nums B) as [B1 [L1 S1]].
  destruct (gem_number st nums) as [[nums1|] st1]; simpl in *; [|eauto].
  specialize (S1 nums1 eq_refl).
  pose proof (bnd_next n st1 B1) as B2. pose proof (lx_next_le st1) as L2.
  destruct (lx_next st1) as [r2 st2]. simpl in *. apply IH; auto. lia.
Qed.

Lemma metadata_good n fuel : forall st acc r, bnd n st -> (length (lrest st) < fuel)%nat ->
  good (gem_metadata fuel st acc r).
Proof.
  induction fuel as [|f IH]; intros st acc r B F; [exfalso; lia|].
  simpl. destruct (gem_elem_tok_spec n st B) as [B1 S1].
  destruct (gem_elem_tok st) as [[e|] st1]; simpl in *; [|exact I].
  specialize (S1 e eq_refl).
  pose proof (bnd_next n st1 B1) as B2. pose proof (lx_next_le st1) as L2.
  destruct (lx_next st1) as [r2 st2]. simpl in *.
  destruct (r2 =? 46); [apply IH; auto; lia | exact I].
Qed.

Lemma version_head_good s : good (gem_version_head s).
Proof.
  unfold gem_version_head.
  set (st0 := {| lrest := s; lprev := s; lerr := false |}).
  assert (B0 : bnd (length s) st0) by (split; simpl; lia).
  destruct (gem_number_spec (length s) st0 [] B0) as [B1 _].
  destruct (gem_number st0 []) as [[nums0|] st1]; simpl in B1; [|exact I].
  pose proof (bnd_next _ st1 B1) as B2. destruct (lx_next st1) as [r0 st2]. simpl in B2.
  destruct (more_nums_spec (length s) (S (length s)) r0 st2 nums0 B2 ltac:(destruct B2; lia)) as [r1 [st3 [nums [E B3]]]].
  rewrite E. cbn [bind].
  assert (B4 : bnd (length s) (snd (if r_is_alnum r1 then (45, lx_back st3) else (r1, st3)))).
  { destruct (r_is_alnum r1); simpl; auto. apply bnd_back; auto. }
  destruct (if r_is_alnum r1 then (45, lx_back st3) else (r1, st3)) as [r2 st4]. simpl in B4.
  assert (M : good (gem_metadata (S (length s)) st4 [] 0)) by (apply (metadata_good (length s)); auto; destruct B4; lia).
  apply good_bind.
  - destruct (r2 =? 45); [|destruct (r2 =? 46)]; try exact I;
      (apply good_bind; [exact M | intros [[r st] pre] _; exact I]).
  - intros [[[r3 st5] pre] ispre] _. destruct (lerr (if r3 =? r_eof then st5 else lx_set_err st5)); exact I.
Qed.

(* ------------------------------------------------------------------ gemExtension.init *)
Lemma span_vcat_len prev s : (length (snd (span_vcat prev s)) <= length s)%nat.
Proof.
  induction s as [|c t IH]; simpl; auto.
  destruct (((vcat c =? cat_numeric) || (vcat c =? cat_qualifier)) && (vcat c =? prev)); simpl; [|lia].
  destruct (span_vcat prev t). simpl in *. lia.
Qed.

Lemma vcat_cases c : vcat c = cat_numeric \/ vcat c = cat_qualifier \/ vcat c = cat_separator \/
                     vcat c = cat_star \/ vcat c = cat_unknown.
Proof.
  unfold vcat. destruct (is_digit c); auto.
  destruct (((97 <=? c) && (c <=? 122))%N || ((65 <=? c) && (c <=? 90))%N || (c =? 95)%N); auto.
  destruct ((c =? 46)%N || (c =? 45)%N); auto. destruct (c =? 42)%N; auto 6.
Qed.

Lemma span_vcat_take k c t : k = cat_numeric \/ k = cat_qualifier -> vcat c = k ->
  span_vcat k (c :: t) = (c :: fst (span_vcat k t), snd (span_vcat k t)).
Proof.
  intros K V. simpl. rewrite V. destruct K as [-> | ->]; simpl; destruct (span_vcat _ t); reflexivity.
Qed.

Local Arguments span_vcat : simpl never.

Lemma nve_shorter c t : (length (snd (next_version_elem (c :: t))) <= length t)%nat.
Proof.
  unfold next_version_elem.
  destruct (vcat_cases c) as [H|[H|[H|[H|H]]]]; rewrite H; simpl.
  - rewrite (span_vcat_take cat_numeric c t) by auto. simpl. apply span_vcat_len.
  - rewrite (span_vcat_take cat_qualifier c t) by auto. simpl. apply span_vcat_len.
  - destruct t as [|d t']; simpl; [lia|].
    pose proof (span_vcat_len (vcat d) (d :: t')). destruct (span_vcat (vcat d) (d :: t')). simpl in *. lia.
  - lia.
  - lia.
Qed.

Local Arguments next_version_elem : simpl never.
Local Arguments version_category : simpl never.

Lemma gem_scan_good fuel : forall s racc, (length s < fuel)%nat -> good (gem_scan fuel s racc).
Proof.
  induction fuel as [|f IH]; intros s racc F; [exfalso; lia|].
  destruct s as [|c t]; [exact I|]. simpl gem_scan. simpl in F.
  destruct (N.eqb c 45); [apply IH; lia|].
  pose proof (nve_shorter c t) as SH.
  destruct (next_version_elem (c :: t)) as [str rest]. simpl in SH.
  destruct (version_category str =? cat_unknown); [exact I|]. apply IH. lia.
Qed.

Lemma gem_trim_good fixed n : forall l, (n <= length l)%nat -> good (gem_trim_from fixed n l).
Proof.
  induction n as [|i IH]; intros l H; [exact I|].
  simpl. destruct (idx_ok l i ltac:(lia)) as [e E]. rewrite E. simpl.
  destruct (bytes_eqb (ge_str e) [48%N]).
  - apply IH. rewrite firstn_length. lia.
  - destruct fixed; [exact I | apply IH; lia].
Qed.

Lemma gem_ints_good l : good (gem_ints l).
Proof.
  induction l as [|e t IH]; simpl; auto.
  destruct (version_category (ge_str e) =? cat_numeric).
  - destruct (bytes_eqb (ge_str e) s_inf).
    + destruct (gem_ints t); simpl; auto.
    + destruct (parse_num (ge_str e)); simpl; auto. destruct (gem_ints t); simpl; auto.
  - destruct (gem_ints t); simpl; auto.
Qed.

Lemma gem_init_good fixed s : good (gem_init_with fixed s).
Proof.
  unfold gem_init_with. destruct (drop_to_pre (to_lower s)) as [p|]; [|exact I].
  apply good_bind; [apply gem_scan_good; lia|]. intros l _.
  apply good_bind; [apply gem_trim_good; lia | intros l' _; apply gem_ints_good].
Qed.

(* ------------------------------------------------------------------ the parser *)
Theorem gem_parse_total fixed s : good (gem_parse_with fixed s).
Proof.
  unfold gem_parse_with. destruct (negb (gem_possible s)); [exact I|].
  apply good_bind; [apply version_head_good|]. intros h _.
  apply good_bind; [apply gem_init_good | intros l _; exact I].
Qed.

(* every accepted string, under either variant, yields a RubyGems version with a gem extension,
   on which compare returns a value *)
Lemma gem_parse_dom_with fixed s v : gem_parse_with fixed s = Ok v -> gem_dom v.
Proof.
  unfold gem_parse_with. destruct (gem_possible s); simpl; [|discriminate].
  destruct (gem_version_head s); simpl; try discriminate.
  destruct (gem_init_with fixed s); simpl; try discriminate.
  intros H. inversion H; subst; simpl. split; reflexivity.
Qed.

Theorem gem_compare_total fixed sa sb a b :
  gem_parse_with fixed sa = Ok a -> gem_parse_with fixed sb = Ok b -> exists r, compare a b = Ok r.
Proof.
  intros Pa Pb. exists (gem_cmp_v a b).
  apply gem_compare_ok; eapply gem_parse_dom_with; eauto.
Qed.
