(* Model of the version parser of util/semver (version.go, lex.go) for the systems without
   an extension: Default, Cargo, Go, NPM, NuGet, Composer (and the front part shared with
   RubyGems).  Definitions only.

   The lexer keeps going after the first error (it only records that one occurred); the
   model threads the same state because the control flow after an error decides whether
   the code can panic (C04) and what is consumed. *)
From DepsDev Require Import Lib.Base Semver.Version Gen.SemverTables.
Local Open Scope Z_scope.

(* ---------------------------------------------------------------- possibleVersionString *)
Fixpoint trim_left_v (s : bytes) : bytes :=
  match s with 118%N :: t => trim_left_v t | _ => s end.

Definition is_wild_char (c : N) : bool := (N.eqb c 42) || (N.eqb c 120) || (N.eqb c 88).

(* the loop over (at most) the first three bytes; [i] is the index *)
Fixpoint pvs_loop (sys : system) (s : bytes) (i : nat) : bool :=
  match s with
  | [] => true
  | c :: t =>
      if (N.eqb c 46) || (N.eqb c 45) || (N.eqb c 43) then negb (Nat.eqb i 0)
      else if is_digit c || is_wild_char c then pvs_loop sys t (S i)
      else if (N.eqb c 33) || (N.eqb c 95) then
        if sys_eqb sys SPyPI then pvs_loop sys t (S i) else false
      else if sys_eqb sys SPyPI && negb (Nat.eqb i 0) && existsb (N.eqb c) letters_in_pypi
           then pvs_loop sys t (S i)
      else false
  end.

Definition possible_version_string (sys : system) (s : bytes) : bool :=
  if sys_eqb sys SMaven then true
  else
    let so :=
      if sys_eqb sys SNPM then Some (trim_left_v s)
      else if sys_eqb sys SPyPI || sys_eqb sys SComposer then
        match s with c :: t => if (N.eqb c 118) || (N.eqb c 86) then Some t else Some s | [] => Some s end
      else if sys_eqb sys SGo then
        match s with 118%N :: t => Some t | _ => None end
      else Some s in
    match so with
    | None => false
    | Some [] => false
    | Some s' => pvs_loop sys (firstn 3 s') 0
    end.

(* ---------------------------------------------------------------- the lexer *)
Definition r_eof : Z := -1.
Definition r_inf : Z := 8734.      (* U+221E *)
Definition r_other : Z := 65533.   (* any rune the lexer rejects and that is not ASCII *)

Record lexer := { l_rest : bytes;      (* input from pos on *)
                  l_pos : nat;
                  l_last : bytes;      (* bytes of the last rune read (for back) *)
                  l_err : bool;
                  l_inf : bool }.

Definition byte_type_of (c : N) : N :=
  match nth_error byte_type (N.to_nat c) with Some t => t | None => go_tXX end.

Definition lex_set_err (l : lexer) : lexer :=
  {| l_rest := l_rest l; l_pos := l_pos l; l_last := l_last l; l_err := true; l_inf := l_inf l |}.

Definition lex_back (l : lexer) : lexer :=
  {| l_rest := l_last l ++ l_rest l; l_pos := (l_pos l - length (l_last l))%nat; l_last := [];
     l_err := l_err l; l_inf := l_inf l |}.

(* lexer.next: returns the rune and the new state *)
Definition lex_next (l : lexer) : Z * lexer :=
  match l_rest l with
  | [] => (r_eof, {| l_rest := []; l_pos := l_pos l; l_last := []; l_err := l_err l; l_inf := l_inf l |})
  | c :: t =>
      if (c <? 127)%N then
        if N.eqb (byte_type_of c) go_tVS then
          (Z.of_N c, {| l_rest := t; l_pos := S (l_pos l); l_last := [c]; l_err := l_err l; l_inf := l_inf l |})
        else (* invalid character: back(), setErr *)
          (Z.of_N c, {| l_rest := l_rest l; l_pos := l_pos l; l_last := []; l_err := true; l_inf := l_inf l |})
      else
        match l_rest l with
        | 226%N :: 136%N :: 158%N :: t3 =>
            if l_inf l then
              (r_inf, {| l_rest := t3; l_pos := (3 + l_pos l)%nat; l_last := [226; 136; 158]%N;
                         l_err := l_err l; l_inf := l_inf l |})
            else (r_inf, {| l_rest := l_rest l; l_pos := l_pos l; l_last := []; l_err := true; l_inf := l_inf l |})
        | _ => (r_other, {| l_rest := l_rest l; l_pos := l_pos l; l_last := []; l_err := true; l_inf := l_inf l |})
        end
  end.

Definition lex_peek (l : lexer) : Z * lexer :=
  let '(r, l') := lex_next l in (r, lex_back l').

Definition z_is_digit (r : Z) : bool := (48 <=? r) && (r <=? 57).
Definition z_is_alpha (r : Z) : bool := ((97 <=? r) && (r <=? 122)) || ((65 <=? r) && (r <=? 90)).
Definition z_is_alnum (r : Z) : bool := z_is_digit r || z_is_alpha r.

(* lexer.digit / alphanumericOrHyphen *)
Definition lex_digit (l : lexer) : bool * lexer :=
  let '(r, l') := lex_next l in
  if z_is_digit r then (true, l') else (false, lex_back l').
Definition lex_alnum_hyphen (l : lexer) : bool * lexer :=
  let '(r, l') := lex_next l in
  if (r =? 45) || z_is_alnum r then (true, l') else (false, lex_back l').

(* ---------------------------------------------------------------- parser state *)
Record pstate := { ps_lex : lexer; ps_num : list Z; ps_pre : list bytes;
                   ps_is_pre : bool; ps_build : bytes }.

Definition with_lex (p : pstate) (l : lexer) : pstate :=
  {| ps_lex := l; ps_num := ps_num p; ps_pre := ps_pre p; ps_is_pre := ps_is_pre p; ps_build := ps_build p |}.
Definition set_err (p : pstate) : pstate := with_lex p (lex_set_err (ps_lex p)).
Definition push_num (p : pstate) (v : Z) : pstate :=
  {| ps_lex := ps_lex p; ps_num := ps_num p ++ [v]; ps_pre := ps_pre p; ps_is_pre := ps_is_pre p;
     ps_build := ps_build p |}.

Definition valid_wildcard (sys : system) (c : N) : bool :=
  match sys with
  | SDefault | SCargo | SNPM => is_wild_char c
  | SNuGet | SPyPI => N.eqb c 42
  | _ => false
  end.

(* versionParser.addNum: (continue?, state) *)
Definition parser_add_num (sys : system) (p : pstate) (v : Z) : bool * pstate :=
  let p1 :=
    if Nat.eqb (length (ps_num p)) 3 then
      match sys with
      | SNuGet | SPyPI | SRubyGems | SComposer => p
      | _ => set_err p
      end
    else p in
  if sys_eqb sys SNuGet && Nat.eqb (length (ps_num p1)) 4 then (false, set_err p1)
  else (true, push_num (if infinity <? v then set_err p1 else p1) v).

(* the digits of a number, consumed while lexer.digit() succeeds *)
Fixpoint take_digits (fuel : nat) (l : lexer) (acc : bytes) : bytes * lexer :=
  match fuel with
  | O => (rev acc, l)
  | S f =>
      let '(ok, l') := lex_digit l in
      if ok then take_digits f l' (match l_last l' with c :: _ => c :: acc | [] => acc end)
      else (rev acc, l')
  end.

(* parseNum on a string of digits: error when the value is >= 2^63-1 *)
Definition parse_num_digits (s : bytes) : option Z :=
  match digits_val s 0 with
  | Some v => if infinity <=? v then None else Some v
  | None => None
  end.

(* versionParser.number *)
Definition parse_number (sys : system) (p : pstate) : bool * pstate :=
  let l := ps_lex p in
  let '(pk, lpk) := lex_peek l in
  if l_inf l && (pk =? r_inf) then
    let '(_, l1) := lex_next lpk in
    parser_add_num sys (with_lex p l1) infinity
  else
    let l0 := if l_inf l then lpk else l in
    let '(ds, l1) := take_digits (S (length (l_rest l0))) l0 [] in
    let p1 := with_lex p l1 in
    match ds with
    | [] =>
        match l_rest l1 with
        | c :: t =>
            if valid_wildcard sys c then
              let p2 := if sys_eqb sys SNuGet && is_wildcard (ps_num p1) then set_err p1 else p1 in
              let l2 := ps_lex p2 in
              (* p.lex.pos++ : one byte, the last-rune width is left as it was (0) *)
              let l3 := {| l_rest := t; l_pos := S (l_pos l2); l_last := l_last l2; l_err := l_err l2; l_inf := l_inf l2 |} in
              parser_add_num sys (with_lex p2 l3) wildcard
            else (false, p1)
        | [] => (false, p1)
        end
    | d0 :: dt =>
        let leading_zero := N.eqb d0 48 && negb (Nat.eqb (length dt) 0) in
        let zero_ok := match sys with SNPM | SNuGet | SRubyGems | SComposer => true | _ => false end in
        if leading_zero && negb zero_ok then (false, set_err p1)
        else
          match parse_num_digits ds with
          | None => (false, set_err p1)
          | Some v =>
              let p2 := if sys_eqb sys SNuGet && is_wildcard (ps_num p1) then set_err p1 else p1 in
              parser_add_num sys p2 v
          end
    end.

(* versionParser.elem: accepted bytes, ok flag *)
Fixpoint elem_loop (sys : system) (fuel : nat) (l : lexer) (seen_wild : bool) (acc : bytes) : bytes * lexer :=
  match fuel with
  | O => (rev acc, l)
  | S f =>
      let '(ok, l1) := lex_alnum_hyphen l in
      if ok then elem_loop sys f l1 seen_wild (match l_last l1 with c :: _ => c :: acc | [] => acc end)
      else if sys_eqb sys SNuGet then
        let '(r, l2) := lex_next l1 in
        if (r =? 42) && negb seen_wild then elem_loop sys f l2 true (42%N :: acc)
        else (rev acc, lex_back l2)
      else (rev acc, l1)
  end.

Definition parse_elem (sys : system) (p : pstate) : option bytes * pstate :=
  let l := ps_lex p in
  let '(e, l1) := elem_loop sys (S (length (l_rest l))) l false [] in
  match e with
  | [] =>
      let '(pk, l2) := lex_peek l1 in
      (None, with_lex p (if pk =? 46 then lex_set_err l2 else l2))
  | _ => (Some e, with_lex p l1)
  end.

(* versionParser.metadata: returns the last rune read (0 when no element was read) *)
Fixpoint metadata_loop (sys : system) (fuel : nat) (p : pstate) (keep : bool) (n : nat) (r : Z) : Z * pstate * nat :=
  match fuel with
  | O => (r, p, n)
  | S f =>
      let '(eo, p1) := parse_elem sys p in
      match eo with
      | None => (r, p1, n)
      | Some e =>
          let p2 := if keep
                    then {| ps_lex := ps_lex p1; ps_num := ps_num p1; ps_pre := ps_pre p1 ++ [e];
                            ps_is_pre := ps_is_pre p1; ps_build := ps_build p1 |}
                    else p1 in
          let '(r', l3) := lex_next (ps_lex p2) in
          let p3 := with_lex p2 l3 in
          if r' =? 46 then metadata_loop sys f p3 keep (S n) r' else (r', p3, S n)
      end
  end.

Definition parse_metadata (sys : system) (p : pstate) (keep : bool) : Z * pstate :=
  let '(r, p1, n) := metadata_loop sys (S (length (l_rest (ps_lex p)))) p keep 0 0 in
  (r, if Nat.eqb n 0 then set_err p1 else p1).

(* the loop  for r == '.' && p.number() { r = next() } *)
Fixpoint numbers_loop (sys : system) (fuel : nat) (p : pstate) (r : Z) : Z * pstate :=
  match fuel with
  | O => (r, p)
  | S f =>
      if r =? 46 then
        let '(ok, p1) := parse_number sys p in
        if ok then
          let '(r', l2) := lex_next (ps_lex p1) in
          numbers_loop sys f (with_lex p1 l2) r'
        else (r, p1)
      else (r, p)
  end.

Fixpoint skip_v (fuel : nat) (l : lexer) : lexer :=
  match fuel with
  | O => l
  | S f => let '(pk, l1) := lex_peek l in
           if pk =? 118 then let '(_, l2) := lex_next l1 in skip_v f l2 else l1
  end.

Definition s_inf3 : bytes := [226; 136; 158; 46; 226; 136; 158; 46; 226; 136; 158]%N.

Fixpoint pad3 (l : list Z) (fuel : nat) : list Z :=
  match fuel with
  | O => l
  | S f => if Nat.ltb (length l) 3 then pad3 (l ++ [0]) f else l
  end.

Definition last_opt {A} (l : list A) : option A := last (map Some l) None.

Definition mk_version (sys : system) (str : bytes) (unc : Z) (p : pstate) (nums : list Z) : version :=
  {| v_sys := sys; v_user_num_count := unc; v_is_prerelease := ps_is_pre p; v_str := str;
     v_num := nums; v_pre := ps_pre p; v_build := ps_build p; v_ext := NoExt |}.

Definition mark_pre (p : pstate) : pstate :=
  {| ps_lex := ps_lex p; ps_num := ps_num p; ps_pre := ps_pre p; ps_is_pre := true; ps_build := ps_build p |}.

(* leading "v" handling *)
Definition pf_prefix (sys : system) (allow_inf : bool) (str : bytes) : lexer :=
  let l0 := {| l_rest := str; l_pos := O; l_last := []; l_err := false; l_inf := allow_inf |} in
  match sys with
  | SNPM => skip_v (S (length str)) l0
  | SGo => let '(r, l') := lex_next l0 in if r =? 118 then l' else lex_set_err l'
  | SComposer => let '(pk, l') := lex_peek l0 in
                 if (pk =? 118) || (pk =? 86) then snd (lex_next l') else l'
  | _ => l0
  end.

(* the dotted numbers; None = "no number in version string" *)
Definition pf_numbers (sys : system) (str : bytes) (l1 : lexer) : option (Z * pstate) :=
  let p0 := {| ps_lex := l1; ps_num := []; ps_pre := []; ps_is_pre := false; ps_build := [] |} in
  let '(ok, p1) := parse_number sys p0 in
  if negb ok then None
  else
    let '(r, l2) := lex_next (ps_lex p1) in
    let '(r, p2) := numbers_loop sys (S (length str)) (with_lex p1 l2) r in
    let p2 :=
      if sys_eqb sys SNuGet && Nat.eqb (length (ps_num p2)) 4 && (get_num (ps_num p2) 3 =? 0)
      then {| ps_lex := ps_lex p2; ps_num := firstn 3 (ps_num p2); ps_pre := ps_pre p2;
              ps_is_pre := ps_is_pre p2; ps_build := ps_build p2 |}
      else p2 in
    Some (r, p2).

(* the prerelease part *)
Definition pf_pre (sys : system) (r : Z) (p3 : pstate) : res (Z * pstate) :=
  if r =? 45 then
    if sys_eqb sys SGo && Nat.ltb (length (ps_num p3)) 3 then Err 3%N
    else Ok (parse_metadata sys (mark_pre p3) true)
  else if (r =? 42) && sys_eqb sys SNuGet then
    let '(r', l4) := lex_next (ps_lex p3) in
    let p4 := with_lex p3 l4 in
    if r' =? r_eof then Ok (r', p4)
    else
      let '(r'', p6) := parse_metadata sys (mark_pre p4) true in
      match last_opt (ps_pre p6) with
      | None => Err 8%N                            (* len(p.pre) == 0: the recorded error is returned *)
      | Some le =>
          match last_opt le with
          | None => Panic PIndex                   (* l[len(l)-1] on an empty element: shown unreachable *)
          | Some c => if N.eqb c 42 then Ok (r'', p6) else Err 4%N
          end
      end
  else if sys_eqb sys SRubyGems && (r =? 46) then Ok (parse_metadata sys (mark_pre p3) true)
  else Ok (r, p3).

(* the build part *)
Definition pf_build (sys : system) (str : bytes) (r : Z) (p5 : pstate) : res (Z * pstate) :=
  if (r =? 43) && negb (sys_eqb sys SRubyGems) then
    if sys_eqb sys SGo && Nat.ltb (length (ps_num p5)) 3 then Err 5%N
    else
      let start := (l_pos (ps_lex p5) - 1)%nat in
      let '(r', p6) := parse_metadata sys p5 false in
      let b := firstn (l_pos (ps_lex p6) - start) (skipn start str) in
      Ok (r', {| ps_lex := ps_lex p6; ps_num := ps_num p6; ps_pre := ps_pre p6;
                 ps_is_pre := ps_is_pre p6; ps_build := b |})
  else Ok (r, p5).

Definition pf_finish (sys : system) (str : bytes) (r : Z) (p7 : pstate) : res (version * bool) :=
  let p8 := if negb (r =? r_eof) then set_err p7 else p7 in
  let unc := Z.of_nat (length (ps_num p8)) in
  let nums := if sys_eqb sys SRubyGems || sys_eqb sys SNuGet then pad3 (ps_num p8) 3 else ps_num p8 in
  if l_err (ps_lex p8) then Err 6%N
  else Ok (mk_version sys str unc p8 nums, false).

(* versionParser.version for systems other than Maven and PyPI; the RubyGems extension
   step (gemVersion) is applied by GemParse.v to the state returned here. *)
Definition parse_front (sys : system) (allow_inf : bool) (str : bytes) : res (version * bool) :=
  if allow_inf && bytes_eqb str s_inf3 then
    Ok ({| v_sys := sys; v_user_num_count := 0; v_is_prerelease := false; v_str := str;
           v_num := [infinity; infinity; infinity]; v_pre := []; v_build := []; v_ext := NoExt |}, true)
  else
    match pf_numbers sys str (pf_prefix sys allow_inf str) with
    | None => Err 1%N
    | Some (r, p2) =>
        if (r =? 46) && Nat.ltb (length (ps_num p2)) 3 && negb (sys_eqb sys SRubyGems) then Err 2%N
        else
          let '(r, p3) :=
            if sys_eqb sys SRubyGems && z_is_alnum r then (45, with_lex p2 (lex_back (ps_lex p2))) else (r, p2) in
          match pf_pre sys r p3 with
          | Err e => Err e
          | Panic x => Panic x
          | OutOfFuel => OutOfFuel
          | Ok (r, p5) =>
              match pf_build sys str r p5 with
              | Err e => Err e
              | Panic x => Panic x
              | OutOfFuel => OutOfFuel
              | Ok (r, p7) => pf_finish sys str r p7
              end
          end
    end.

(* System.parse (internal) and System.Parse (public) for the family. *)
Definition parse_internal (sys : system) (allow_inf : bool) (str : bytes) : res version :=
  match parse_front sys allow_inf str with
  | Ok (v, _) => Ok v
  | Err e => Err e
  | Panic p => Panic p
  | OutOfFuel => OutOfFuel
  end.

Definition parse (sys : system) (str : bytes) : res version :=
  if possible_version_string sys str then parse_internal sys false str else Err 7%N.
