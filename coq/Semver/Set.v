(* Model of util/semver/set.go: canon (sort + merge loop), Union, Intersect, Empty,
   matchVersion, String, parseSet, and parseSpan of span.go.  Definitions only.

   Sorting: sort.Slice is modelled by a stable insertion sort (which is also what pdqsort
   runs for at most 12 elements); where uniqueness of the sorted list matters the theorems
   carry the obligation that the span order is a strict total order on the list. *)
From DepsDev Require Import Lib.Base Semver.Version Semver.Maven Semver.Gem Semver.Pep440 Semver.Compare
     Semver.Parse Semver.Span Semver.Interval Gen.SemverTables.
Local Open Scope Z_scope.

Record set := { set_sys : system; set_span : list span }.

(* ---------------------------------------------------------------- the sort *)
(* the less function given to sort.Slice *)
Definition span_less (a b : span) : res bool :=
  c <- compare_opt (sp_min a) (sp_min b);;
  if negb (c =? 0) then Ok (c <? 0) else
  if negb (Bool.eqb (sp_min_open a) (sp_min_open b)) then Ok (negb (sp_min_open a)) else
  c2 <- compare_opt (sp_max a) (sp_max b);;
  if negb (c2 =? 0) then Ok (c2 <? 0) else
  if negb (Bool.eqb (sp_max_open a) (sp_max_open b)) then Ok (sp_max_open a) else
  Ok false.

(* insert x at the right end of the (reversed) sorted prefix, moving left while x < y *)
Fixpoint ins_rev (x : span) (rl : list span) : res (list span) :=
  match rl with
  | [] => Ok [x]
  | y :: t => b <- span_less x y;; if b then r <- ins_rev x t;; Ok (y :: r) else Ok (x :: rl)
  end.

Fixpoint sort_rev (l : list span) (acc : list span) : res (list span) :=
  match l with
  | [] => Ok acc
  | x :: t => acc' <- ins_rev x acc;; sort_rev t acc'
  end.

Definition sort_spans (l : list span) : res (list span) := r <- sort_rev l [];; Ok (rev r).

(* ---------------------------------------------------------------- canon *)
Definition equal_opt (a b : option version) : res bool := c <- compare_opt a b;; Ok (c =? 0).

(* equalPrerelease: pointer equality (both nil here), else comparePrerelease, which
   dereferences both arguments *)
Definition equal_pre (a b : option version) : res bool :=
  match a, b with
  | None, None => Ok true
  | Some x, Some y => Ok (compare_pre (v_sys x) (v_pre x) (v_pre y) =? 0)
  | _, _ => Panic PNilDeref
  end.

Definition sp_set_max_open (s : span) (b : bool) : span :=
  {| sp_rank := sp_rank s; sp_min_open := sp_min_open s; sp_max_open := b; sp_min := sp_min s; sp_max := sp_max s |}.

(* what one round of the inner loop decides *)
Inductive inner_step := IBreak | IContinue (this : span) (skip : bool).

Definition canon_step (this next : span) : res inner_step :=
  e <- equal_opt (sp_max this) (sp_min next);;
  gap <- (if e then Ok (Some false) else
          mx <- opt_version (sp_max this);;
          if has_pre mx then Ok None                    (* continue: too difficult for now *)
          else
            mp1 <- version_inc mx;;
            c <- compare_opt (Some mp1) (sp_min next);;
            Ok (Some (c <? 0)));;
  match gap with
  | None => Ok (IContinue this false)
  | Some true => Ok IBreak
  | Some false =>
      if sp_max_open this && sp_min_open next then Ok (IContinue this false) else
      p1 <- equal_pre (sp_min this) (sp_max this);;
      if negb p1 then Ok (IContinue this false) else
      p2 <- equal_pre (sp_min this) (sp_min next);;
      if negb p2 then Ok (IContinue this false) else
      p3 <- equal_pre (sp_min this) (sp_max next);;
      if negb p3 then Ok (IContinue this false) else
      (* i++ *)
      if rank_is_empty (sp_rank next) then Ok (IContinue this true) else
      c <- compare_opt (sp_max next) (sp_max this);;
      if c <=? 0 then
        e2 <- equal_opt (sp_max this) (sp_max next);;
        Ok (IContinue (if e2 then sp_set_max_open this (sp_max_open this && sp_max_open next) else this) true)
      else
        Ok (IContinue {| sp_rank := RVector; sp_min_open := sp_min_open this; sp_max_open := sp_max_open next;
                         sp_min := sp_min this; sp_max := sp_max next |} true)
  end.

(* the inner loop over j; k counts the i++ *)
Fixpoint canon_inner (this : span) (tail : list span) (k : nat) : res (span * nat) :=
  match tail with
  | [] => Ok (this, k)
  | next :: rest =>
      st <- canon_step this next;;
      match st with
      | IBreak => Ok (this, k)
      | IContinue this' skip => canon_inner this' rest (if skip then S k else k)
      end
  end.

(* the outer loop: after the inner loop the next i is i + k + 1 *)
Fixpoint canon_loop (fuel : nat) (l : list span) : res (list span) :=
  match fuel with
  | O => OutOfFuel
  | S f =>
      match l with
      | [] => Ok []
      | this :: tail =>
          if rank_is_empty (sp_rank this) then canon_loop f tail
          else
            r <- canon_inner this tail 0;;
            rest <- canon_loop f (skipn (snd r) tail);;
            Ok (fst r :: rest)
      end
  end.

Fixpoint sys_of_span (l : list span) : system :=
  match l with
  | [] => SDefault
  | s :: t => match sp_min s with Some v => v_sys v | None => sys_of_span t end
  end.

Definition canon_spans (s : list span) : res (list span) :=
  if (length s <=? 1)%nat then Ok s else
  if sys_eqb (sys_of_span s) SMaven then Ok s else
  sorted <- sort_spans s;;
  if forallb (fun x => rank_is_empty (sp_rank x)) sorted then Ok (firstn 1 sorted)
  else canon_loop (S (length sorted)) sorted.

(* ---------------------------------------------------------------- Union, Intersect, Empty *)
Definition set_union (s t : set) : res set :=
  sp <- canon_spans (set_span s ++ set_span t);;
  Ok {| set_sys := set_sys s; set_span := sp |}.

Definition new_span_opt (mn : option version) (mo : bool) (mx : option version) (xo : bool) : res span :=
  a <- opt_version mn;; b <- opt_version mx;; new_span a mo b xo.

(* the loop over t for one element of s; it stops at the first telem whose min is
   beyond selem.max *)
Fixpoint inter_row (selem : span) (ts : list span) : res (list span) :=
  match ts with
  | [] => Ok []
  | telem :: rest =>
      if rank_is_empty (sp_rank telem) then inter_row selem rest else
      c1 <- compare_opt (sp_max telem) (sp_min selem);;
      if (c1 <? 0) || ((c1 =? 0) && sp_max_open telem) then inter_row selem rest else
      c2 <- compare_opt (sp_min telem) (sp_max selem);;
      if 0 <? c2 then Ok [] else
      c3 <- compare_opt (sp_min telem) (sp_min selem);;
      let '(mn, mo) := if (0 <? c3) || ((c3 =? 0) && sp_min_open telem)
                       then (sp_min telem, sp_min_open telem) else (sp_min selem, sp_min_open selem) in
      c4 <- compare_opt (sp_max telem) (sp_max selem);;
      let '(mx, xo) := if (c4 <? 0) || ((c4 =? 0) && sp_max_open telem)
                       then (sp_max telem, sp_max_open telem) else (sp_max selem, sp_max_open selem) in
      sp <- new_span_opt mn mo mx xo;;
      r <- inter_row selem rest;;
      Ok (sp :: r)
  end.

Fixpoint inter_rows (ss ts : list span) : res (list span) :=
  match ss with
  | [] => Ok []
  | selem :: rest =>
      if rank_is_empty (sp_rank selem) then inter_rows rest ts else
      a <- inter_row selem ts;;
      b <- inter_rows rest ts;;
      Ok (a ++ b)
  end.

Definition set_intersect (s t : set) : res set :=
  out <- inter_rows (set_span s) (set_span t);;
  let out1 := match out with [] => [empty_span] | _ => out end in
  sp <- canon_spans out1;;
  Ok {| set_sys := set_sys s; set_span := sp |}.

Definition set_empty (s : set) : bool := forallb (fun x => rank_is_empty (sp_rank x)) (set_span s).

(* ---------------------------------------------------------------- matchVersion *)
Definition pep_details (v : version) : res (option pep440) :=
  match v_ext v with
  | Pep440Ext e => Ok e
  | NoExt => Ok None
  | _ => Panic PExplicit                                 (* failed type assertion *)
  end.
Definition is_pypi_post (v : version) : res bool :=
  if negb (sys_eqb (v_sys v) SPyPI) then Ok false else
  e <- pep_details v;; Ok (match e with Some p => p_post p | None => false end).
Definition is_pypi_local (v : version) : res bool :=
  if negb (sys_eqb (v_sys v) SPyPI) then Ok false else
  e <- pep_details v;; Ok (match e with Some p => negb (bytes_eqb (p_local p) []) | None => false end).
Definition is_pypi_dev (v : version) : res bool :=
  if negb (sys_eqb (v_sys v) SPyPI) then Ok false else
  e <- pep_details v;; Ok (match e with Some p => p_dev p | None => false end).

Definition opt_is_prerelease (o : option version) : bool :=
  match o with Some v => v_is_prerelease v | None => false end.
Definition opt_pypi_dev (o : option version) : res bool :=
  match o with Some v => is_pypi_dev v | None => Panic PNilDeref end.

(* numsEqual *)
Definition nums_equal (a b : version) : bool := compare_nums (v_num a) (v_num b) =? 0.

(* one span of matchVersion: Some b = return b / continue when None is not used; the result is
   (skip, pre): skip = continue with the next span *)
Definition match_span (v : version) (include_pre : bool) (s : span) : res bool :=
  r <- (if sys_eqb (v_sys v) SPyPI && (match sp_rank s with RVector => true | _ => false end) then
          vdev <- is_pypi_dev v;;
          r1 <- (if negb include_pre && (v_is_prerelease v || vdev) then
                   any_pre <- Ok (opt_is_prerelease (sp_min s) || opt_is_prerelease (sp_max s));;
                   d1 <- opt_pypi_dev (sp_min s);;
                   d2 <- opt_pypi_dev (sp_max s);;
                   if negb (any_pre || d1 || d2) then Ok (true, include_pre)
                   else if sp_min_open s then Ok (true, include_pre)
                   else Ok (false, true)
                 else Ok (false, include_pre));;
          let '(skip1, pre1) := r1 in
          if skip1 then Ok (true, pre1) else
          vpost <- is_pypi_post v;;
          skip2 <- (if vpost then
                      mn <- opt_version (sp_min s);;
                      mpost <- is_pypi_post mn;;
                      Ok (negb mpost && sp_min_open s && nums_equal v mn)
                    else Ok false);;
          if skip2 then Ok (true, pre1) else
          vloc <- is_pypi_local v;;
          Ok (vloc, pre1)
        else Ok (false, include_pre));;
  let '(skip, pre) := r in
  if skip then Ok false else
  r2 <- (if sys_eqb (v_sys v) SNuGet && negb pre && v_is_prerelease v then
           if negb (opt_is_prerelease (sp_min s)) && negb (opt_is_prerelease (sp_max s)) then Ok (true, pre)
           else Ok (false, true)
         else Ok (false, pre));;
  let '(skip3, pre3) := r2 in
  if skip3 then Ok false else span_contains s v pre3.

Fixpoint match_spans (v : version) (include_pre : bool) (l : list span) : res bool :=
  match l with
  | [] => Ok false
  | s :: t => b <- match_span v include_pre s;; if b then Ok true else match_spans v include_pre t
  end.

Definition set_match_version (s : set) (v : version) (include_pre : bool) : res bool :=
  match set_span s with
  | [] => Ok (negb (has_pre v))
  | l => match_spans v (if sys_eqb (v_sys v) SRubyGems then true else include_pre) l
  end.

(* ---------------------------------------------------------------- String *)
Fixpoint spans_string (first : bool) (l : list span) : res bytes :=
  match l with
  | [] => Ok []
  | s :: t => a <- span_string s;; b <- spans_string false t;; Ok ((if first then [] else [44%N]) ++ a ++ b)
  end.

Definition set_string (s : set) : res bytes :=
  b <- spans_string true (set_span s);; Ok ([123%N] ++ b ++ [125%N]).

(* ---------------------------------------------------------------- parseSpan, parseSet *)
Section WithParser.
Variable parse_version : system -> bool -> bytes -> res parse_out.

(* System.Parse *)
Definition parse_public (sys : system) (s : bytes) : res parse_out :=
  if possible_version_string sys s then parse_version sys false s
  else Ok {| po_v := None; po_err := true |}.

(* strings.Split(s, sep) for a one-byte separator *)
Fixpoint split_on (sep : N) (s : bytes) (cur : bytes) : list bytes :=
  match s with
  | [] => [rev cur]
  | c :: t => if N.eqb c sep then rev cur :: split_on sep t [] else split_on sep t (c :: cur)
  end.

(* a parse that must succeed *)
Definition parse_ok (r : res parse_out) : res version :=
  po <- r;;
  if po_err po then Err E_parse else opt_version (po_v po).

Definition parse_span (sys : system) (s : bytes) : res (span * bool) :=
  match s with
  | [] => Err E_syntax
  | c0 :: _ =>
      if bytes_eqb s s_empty_span then Ok (empty_span, false)
      else if N.eqb c0 91 || N.eqb c0 40 then
        match last_opt s with
        | None => Err E_syntax
        | Some close =>
            if negb (N.eqb close 93 || N.eqb close 41) then Err E_syntax else
            (* s[1:len(s)-1]: len(s) >= 2 here because s[0] is an opening bracket and the last byte is not *)
            match split_on 58 (removelast (skipn 1 s)) [] with
            | [a; b] =>
                mn <- parse_ok (parse_version sys false a);;
                mx <- parse_ok (parse_version sys true b);;
                Ok ({| sp_rank := RVector; sp_min_open := N.eqb c0 40; sp_max_open := N.eqb close 41;
                       sp_min := Some mn; sp_max := Some mx |}, false)
            | _ => Err E_syntax
            end
        end
      else
        v <- parse_ok (parse_public sys s);;
        Ok ({| sp_rank := RUnit; sp_min_open := false; sp_max_open := false; sp_min := Some v; sp_max := Some v |},
            negb (is_wildcard_v v))
  end.

Fixpoint parse_spans (sys : system) (l : list bytes) : res (list span * Z) :=
  match l with
  | [] => Ok ([], 0)
  | s :: t =>
      r <- parse_span sys s;;
      rest <- parse_spans sys t;;
      Ok (fst r :: fst rest, (if snd r then 1 else 2) + snd rest)
  end.

Definition parse_set (sys : system) (s : bytes) : res (set * bool) :=
  match s, last_opt s with
  | c0 :: _ :: _, Some cl =>
      if negb (N.eqb c0 123 && N.eqb cl 125) then Err E_syntax else
      if bytes_eqb s [123;125]%N then Ok ({| set_sys := sys; set_span := [empty_span] |}, false) else
      r <- parse_spans sys (split_on 44 (removelast (skipn 1 s)) []);;
      Ok ({| set_sys := sys; set_span := fst r |}, snd r =? 1)
  | _, _ => Err E_syntax
  end.

End WithParser.
