(* Model pipeline = Maven specification on a first whole-pipeline fragment: a self-contained POM
   (no parent, no profiles, no import) whose texts hold no dollar sign (so no placeholder), with
   no identity declared twice.  Everything between decoding and the result is covered on both
   sides: MergeProfiles, mergeParents, Interpolate, ProcessDependencies against ancestors,
   activation, selection, the property table and its cycle test, interpolation, validation,
   import, injection. *)
From Coq Require Import Lia.
From DepsDev Require Import Lib.Base Gen.PomTables Maven.Pom Maven.Interp Maven.Interp_proofs Maven.Project
  Maven.Project_proofs Maven.Imports_proofs.
From DepsDev Require Spec.MavenModelSpec.
Module S := Spec.MavenModelSpec.
Arguments S.declares : simpl never.
Arguments dep_key : simpl never.

Definition plain (s : bytes) : Prop := Forall (fun c => c <> 36) s.

Definition plain_dep (d : dependency) : Prop :=
  plain (d_group d) /\ plain (d_artifact d) /\ plain (d_version d) /\ plain (d_type d) /\
  plain (d_classifier d) /\ plain (d_scope d) /\ plain (d_optional d) /\
  Forall (fun e => plain (fst e) /\ plain (snd e)) (d_excl d).

Definition good_dep (d : dependency) : Prop :=
  plain_dep d /\ d_group d <> [] /\ d_artifact d <> [] /\ bytes_eqb (d_scope d) s_import = false.

Record simple_pom (p : project) : Prop := {
  sp_no_parent : par_group p = [] /\ par_artifact p = [] /\ par_version p = [];
  sp_no_profiles : p_profiles p = [];
  sp_coords : plain (p_group p) /\ plain (p_version p);
  sp_props : Forall (fun kv => plain (snd kv)) (p_props p);
  sp_deps : Forall good_dep (p_deps p);
  sp_mgmt : Forall good_dep (p_mgmt p);
  sp_deps_nodup : NoDup (map dep_key (p_deps p));
  sp_mgmt_nodup : NoDup (map dep_key (p_mgmt p)) }.

(* ---- the model side *)
Lemma split_open_plain : forall s, plain s -> split_open s = None.
Proof.
  induction s as [|c s IH]; intro H; [reflexivity|]. inversion H; subst.
  cbn [split_open]. assert (E : has_prefix s_open (c :: s) = false).
  { unfold s_open. cbn [has_prefix]. destruct (36 =? c) eqn:E; [apply N.eqb_eq in E; congruence | reflexivity]. }
  rewrite E, IH by assumption. reflexivity.
Qed.

Lemma interpolate_string_plain : forall dc s, plain s -> interpolate_string dc s = Ok (s, true).
Proof.
  intros dc s H. unfold interpolate_string, interp_bound. apply interp_no_placeholder.
  unfold find_placeholder. rewrite split_open_plain by exact H. reflexivity.
Qed.

Lemma interp_dep_plain : forall dc d, plain_dep d -> interp_dep dc d = Ok (d, true).
Proof.
  intros dc [g a v t c s o e] (Hg & Ha & Hv & Ht & Hc & Hs & Ho & _). simpl in *.
  unfold interp_dep. simpl.
  rewrite !interpolate_string_plain by assumption. reflexivity.
Qed.

Lemma is_empty_false : forall s, s <> [] -> is_empty s = false.
Proof. intros [|c s] H; [congruence | reflexivity]. Qed.

Lemma interp_deps_plain : forall dc l, Forall good_dep l -> interp_deps dc l = Ok l.
Proof.
  intros dc. induction l as [|d l IH]; intro H; [reflexivity|]. inversion H as [|? ? Hd Hl]; subst.
  destruct Hd as (Hp & Hg & Ha & _).
  cbn [interp_deps]. rewrite IH by exact Hl. cbn [bind].
  rewrite (is_empty_false _ Hg), (is_empty_false _ Ha). cbn [orb].
  rewrite interp_dep_plain by exact Hp. reflexivity.
Qed.

Lemma firsts_nodup_id : forall l sn, NoDup (map dep_key l) -> (forall d, In d l -> ~ In (dep_key d) sn) ->
  firsts sn l = l.
Proof.
  induction l as [|d l IH]; intros sn ND Hs; [reflexivity|]. simpl in ND. inversion ND as [|? ? Hn ND']; subst.
  cbn [firsts]. assert (E : mem_key (dep_key d) sn = false).
  { destruct (mem_key (dep_key d) sn) eqn:E; [|reflexivity]. apply mem_key_In in E. exfalso. apply (Hs d); [left; reflexivity | exact E]. }
  rewrite E. f_equal. apply IH; [exact ND'|].
  intros x Hx [Hk|Hk]; [apply Hn; rewrite Hk; apply in_map; exact Hx | apply (Hs x); [right; exact Hx | exact Hk]].
Qed.

Lemma dedupe_nodup_id : forall l, NoDup (map dep_key l) -> dedupe_into [] l = map with_jar l.
Proof. intros l H. rewrite dedupe_first_wins, firsts_nodup_id; auto. Qed.

Lemma own_of_no_import : forall l, Forall good_dep l -> own_of l = l /\ imps_of l = [].
Proof.
  induction l as [|d l IH]; intro H; [split; reflexivity|]. inversion H as [|? ? Hd Hl]; subst.
  destruct (IH Hl) as [E1 E2]. destruct Hd as (_ & _ & _ & Hi).
  assert (Hi' : is_imp d = false) by exact Hi.
  unfold own_of, imps_of in *. cbn [filter]. rewrite Hi'. cbn [negb]. rewrite E1, E2. split; reflexivity.
Qed.

Definition result_of (p : project) : list dependency * list dependency :=
  let m := map with_jar (p_mgmt p) in (map (fun d => fill_in m (with_jar d)) (p_deps p), m).

Lemma model_on_simple : forall J jdk os repo p, simple_pom p -> effective J jdk os repo p = Ok (result_of p).
Proof.
  intros J jdk os repo p [[Hpg [Hpa Hpv]] Hprof _ _ Hd Hm NDd NDm].
  unfold effective, merge_profiles. rewrite Hprof. cbn [select_profiles bind fold_left]. rewrite Hpg, Hpa, Hpv.
  assert (MP : forall k, merge_parents J jdk os repo k true ([], [], []) [] p = interpolate p) by (intros [|k]; reflexivity).
  rewrite MP. unfold interpolate.
  destruct (interp_total (project_dict p) (p_packaging p)) as [pk [okf Epk]]. unfold interpolate_string in Epk.
  unfold interpolate_string at 1. rewrite Epk. cbn [bind].
  rewrite !interp_deps_plain by assumption. cbn [bind fst].
  unfold process_dependencies. cbn [p_deps p_mgmt]. rewrite add_dep_management_spec.
  destruct (own_of_no_import _ Hm) as [E1 E2]. rewrite E1, E2. cbn [app].
  assert (IL : forall n m, import_loop (import_mgmt J jdk os repo) n [] [] m = Ok m) by (intros [|n] m; reflexivity).
  rewrite IL. cbn [bind]. rewrite !dedupe_nodup_id by assumption. unfold result_of. rewrite map_map. reflexivity.
Qed.

(* ---- the specification side *)

Lemma pass_plain : forall t s, plain s -> S.pass t S.Outside [] s = s.
Proof.
  intros t. induction s as [|c s IH]; intro H; [reflexivity|]. inversion H; subst.
  cbn [S.pass]. destruct (c =? 36) eqn:E; [apply N.eqb_eq in E; congruence|]. rewrite IH by assumption. reflexivity.
Qed.

Lemma rounds_plain : forall n t s, plain s -> S.rounds n t s = s.
Proof. induction n as [|n IH]; intros t s H; [reflexivity|]. cbn [S.rounds]. rewrite pass_plain by exact H. apply IH. exact H. Qed.

Lemma has_marker_plain : forall s, plain s -> S.has_marker s = false.
Proof.
  induction s as [|c s IH]; intro H; [reflexivity|]. inversion H; subst. cbn [S.has_marker].
  rewrite IH by assumption. destruct (c =? 36) eqn:E; [apply N.eqb_eq in E; congruence|].
  rewrite orb_false_r.
  destruct s as [|[|p] s2]; try reflexivity.
  do 7 (destruct p as [p|p|]; try reflexivity).
Qed.

Lemma names_in_plain : forall s, plain s -> S.names_in S.Outside [] s = [].
Proof.
  induction s as [|c s IH]; intro H; [reflexivity|]. inversion H; subst. cbn [S.names_in].
  destruct (c =? 36) eqn:E; [apply N.eqb_eq in E; congruence|]. apply IH. assumption.
Qed.

Lemma resolve_plain : forall t s, plain s -> S.resolve t s = (s, true).
Proof. intros t s H. unfold S.resolve. rewrite rounds_plain by exact H. rewrite has_marker_plain by exact H. reflexivity. Qed.

Lemma resolve_excl_plain : forall t l, Forall (fun e => plain (fst e) /\ plain (snd e)) l ->
  map (fun e => (S.resolve t (fst e), S.resolve t (snd e))) l = map (fun e => ((fst e, true), (snd e, true))) l.
Proof.
  intros t l H. apply map_ext_in. intros e He. rewrite Forall_forall in H. destruct (H e He) as [H1 H2].
  rewrite !resolve_plain by assumption. reflexivity.
Qed.

Lemma map_pair_id : forall (l : list (bytes * bytes)), map (fun x : bytes * bytes => (fst x, snd x)) l = l.
Proof. induction l as [|[x y] l IH]; simpl; [reflexivity | rewrite IH; reflexivity]. Qed.

Lemma forallb_flags : forall l : list (bytes * bytes),
  forallb (fun x : bytes * bool * (bytes * bool) => snd (fst x) && snd (snd x)) (map (fun x => (fst x, true, (snd x, true))) l) = true.
Proof. induction l; simpl; auto. Qed.

Lemma resolve_dep_plain : forall t d, plain_dep d -> S.resolve_dep t d = (d, true).
Proof.
  intros t [g a v ty c s o e] (Hg & Ha & Hv & Ht & Hc & Hs & Ho & He). simpl in *.
  unfold S.resolve_dep. cbn [d_group d_artifact d_version d_type d_classifier d_scope d_optional d_excl].
  rewrite !resolve_plain by assumption. rewrite resolve_excl_plain by exact He.
  cbn [fst snd andb]. rewrite map_map. cbn [fst snd].
  rewrite map_pair_id, forallb_flags. reflexivity.
Qed.

Lemma interpolation_agrees_plain : forall dc t d, plain_dep d ->
  interp_dep dc d = Ok (d, true) /\ S.resolve_dep t d = (d, true).
Proof. intros dc t d H. split; [apply interp_dep_plain | apply resolve_dep_plain]; exact H. Qed.

(* an inhabitant: g:a without version managed to 2 with scope test; g:b 1 with its own exclusion *)
Definition ex_simple : project :=
  mkProject [114] [120] [49] [] [] [] [] [([118], [55])]
            [mkDep [103] [97] [] [] [] [] [] []; mkDep [103] [98] [49] [] [] [] [] [([104], [42])]]
            [mkDep [103] [97] [50] [] [] [116;101;115;116] [] [([120], [121])]] [].

Ltac plain_tac := repeat (constructor; try (intro; discriminate)).

Lemma ex_simple_ok : simple_pom ex_simple.
Proof.
  constructor; simpl.
  - repeat split; reflexivity.
  - reflexivity.
  - split; plain_tac.
  - plain_tac.
  - repeat constructor; try (intro; discriminate); try reflexivity; unfold plain; plain_tac.
  - repeat constructor; try (intro; discriminate); try reflexivity; unfold plain; plain_tac.
  - repeat constructor; simpl; intuition discriminate.
  - repeat constructor; simpl; intuition discriminate.
Qed.

Lemma ex_simple_spec : forall J,
  S.effective J [49;49] (mkOS [108] [] [] []) [] ex_simple = S.SOk (result_of ex_simple) /\
  fst (result_of ex_simple) =
    [mkDep [103] [97] [50] s_jar [] [116;101;115;116] [] [([120], [121])];
     mkDep [103] [98] [49] s_jar [] [] [] [([104], [42])]].
Proof. intro J. split; vm_compute; reflexivity. Qed.
