(* Model of util/maven/string.go (interpolating) and properties.go (propertyMap).
   Definitions only; lemmas are in Interp_proofs.v. *)
From DepsDev Require Import Lib.Base.

(* ---- byte-string constants *)
Definition s_open : bytes := [36; 123].                                   (* dollar, open brace *)
Definition c_close : N := 125.                                            (* close brace *)
Definition s_project_dot : bytes := [112;114;111;106;101;99;116;46].      (* project. *)
Definition s_pom_dot : bytes := [112;111;109;46].                         (* pom. *)
Definition s_groupId : bytes := [103;114;111;117;112;73;100].             (* groupId *)
Definition s_version : bytes := [118;101;114;115;105;111;110].            (* version *)
Definition s_parent_dot : bytes := [112;97;114;101;110;116;46].           (* parent. *)

Fixpoint has_prefix (p s : bytes) : bool :=
  match p, s with
  | [], _ => true
  | x :: p', y :: s' => N.eqb x y && has_prefix p' s'
  | _ :: _, [] => false
  end.

Fixpoint mem_bytes (k : bytes) (l : list bytes) : bool :=
  match l with
  | [] => false
  | x :: l' => bytes_eqb k x || mem_bytes k l'
  end.

(* strings.Index(s, open): the text before the first occurrence and the text from it on. *)
Fixpoint split_open (s : bytes) : option (bytes * bytes) :=
  match s with
  | [] => None
  | c :: s' =>
      if has_prefix s_open s then Some ([], s)
      else match split_open s' with
           | Some (pre, rest) => Some (c :: pre, rest)
           | None => None
           end
  end.

(* strings.Index(s, close): the text before the first close brace and the text after it. *)
Fixpoint split_close (s : bytes) : option (bytes * bytes) :=
  match s with
  | [] => None
  | c :: s' =>
      if c =? c_close then Some ([], s')
      else match split_close s' with
           | Some (k, r) => Some (c :: k, r)
           | None => None
           end
  end.

(* One step of the scanning loop of interpolating: i := Index(s, open); j := Index(s[i:], close).
   The close brace is searched from the open marker on, whose two bytes are not a close brace,
   so it is searched in the text after the marker.  Result: s[:i], key = s[i+2:i+j], s[i+j+1:]. *)
Definition find_placeholder (s : bytes) : option (bytes * bytes * bytes) :=
  match split_open s with
  | None => None
  | Some (pre, at_) =>
      match split_close (skipn 2 at_) with
      | None => None
      | Some (key, rest) => Some (pre, key, rest)
      end
  end.

(* The placeholder text as it stands in the source. *)
Definition whole (key : bytes) : bytes := s_open ++ key ++ [c_close].

(* A dictionary is an association list searched from the front (first binding wins);
   property_map below builds it so that this is Go's map after all its assignments. *)
Definition dict := list (bytes * bytes).

Fixpoint lookup (k : bytes) (d : dict) : option bytes :=
  match d with
  | [] => None
  | (k', v) :: d' => if bytes_eqb k k' then Some v else lookup k d'
  end.

(* The scanning loop; [rec] resolves a value with one more key marked as being resolved.
   n is only a structural bound on the remaining text (each round strictly shortens it). *)
Fixpoint interp_loop (rec : list bytes -> bytes -> res (bytes * bool)) (d : dict) (resolving : list bytes)
         (n : nat) (s : bytes) : res (bytes * bool) :=
  match n with
  | O => OutOfFuel
  | S n' =>
      match find_placeholder s with
      | None => Ok (s, true)
      | Some (pre, key, rest) =>
          if mem_bytes key resolving then
            (* a cycle of keys: stop scanning, the remainder is copied verbatim *)
            Ok (pre ++ whole key ++ rest, false)
          else
            match lookup key d with
            | Some v =>
                r1 <- rec (key :: resolving) v ;;
                r2 <- interp_loop rec d resolving n' rest ;;
                Ok (pre ++ fst r1 ++ fst r2, snd r1 && snd r2)
            | None =>
                r2 <- interp_loop rec d resolving n' rest ;;
                Ok (pre ++ whole key ++ fst r2, false)
            end
      end
  end.

(* interpolating(s, dictionary, resolving); fuel bounds the nesting depth of value resolution. *)
Fixpoint interp (fuel : nat) (d : dict) (resolving : list bytes) (s : bytes) : res (bytes * bool) :=
  match fuel with
  | O => OutOfFuel
  | S f => interp_loop (interp f d) d resolving (S (length s)) s
  end.

(* The explicit bound: one level per dictionary entry, plus the outermost call. *)
Definition interp_bound (d : dict) : nat := S (length d).

(* String.interpolate / FalsyBool.interpolate: a fresh resolving set. *)
Definition interpolate_string (d : dict) (s : bytes) : res (bytes * bool) :=
  interp (interp_bound d) d [] s.

(* Project.propertyMap.  Go fills a map: every declared property in order (a later one
   replaces an earlier one), then for each non-empty built-in k the unprefixed key only when
   absent, and the pom. and project. forms unconditionally.  As a front-searched list:
   prefixed built-ins, the declared properties latest first, unprefixed built-ins. *)
Definition builtin_prefixed (k v : bytes) : dict :=
  if bytes_eqb v [] then [] else [(s_pom_dot ++ k, v); (s_project_dot ++ k, v)].
Definition builtin_plain (k v : bytes) : dict :=
  if bytes_eqb v [] then [] else [(k, v)].

Definition builtins (group version pgroup pversion : bytes) : list (bytes * bytes) :=
  [(s_groupId, group); (s_version, version);
   (s_parent_dot ++ s_groupId, pgroup); (s_parent_dot ++ s_version, pversion)].

Definition property_map (props : list (bytes * bytes)) (group version pgroup pversion : bytes) : dict :=
  let b := builtins group version pgroup pversion in
  flat_map (fun kv => builtin_prefixed (fst kv) (snd kv)) b
  ++ rev props
  ++ flat_map (fun kv => builtin_plain (fst kv) (snd kv)) b.
