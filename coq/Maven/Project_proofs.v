(* The model of the Go pipeline against Maven's rules (Spec/MavenModelSpec.v), piece by piece:
   - property lookup priority (R5 with R2, R3)            props_priority
   - dependency identity and which declaration wins        selection_refines / selection_differs
   - injection of managed values only where empty (R8)     fill_in_is_inject
   plus the characterisation of the Go dedupe as "first declaration wins". *)
From Coq Require Import Lia.
From DepsDev Require Import Lib.Base Gen.PomTables Maven.Pom Maven.Interp Maven.Interp_proofs Maven.Project.
From DepsDev Require Spec.MavenModelSpec.
Module S := Spec.MavenModelSpec.
Arguments S.declares : simpl never.
Arguments dep_key : simpl never.

(* ---- the two notions of identity coincide *)
Lemma blank_is_empty : forall s, S.blank s = is_empty s.
Proof. reflexivity. Qed.

Lemma ident_is_key : forall d, S.ident_of d = dep_key d.
Proof. reflexivity. Qed.

Lemma ident_eqb_is_dkey_eqb : forall x y, S.ident_eqb x y = dkey_eqb x y.
Proof. intros [[[g1 a1] t1] c1] [[[g2 a2] t2] c2]. reflexivity. Qed.

Lemma dkey_eqb_eq : forall x y, dkey_eqb x y = true <-> x = y.
Proof.
  intros [[[g1 a1] t1] c1] [[[g2 a2] t2] c2]. unfold dkey_eqb.
  rewrite !andb_true_iff, !bytes_eqb_eq. split.
  - intros [[[-> ->] ->] ->]. reflexivity.
  - intro H. inversion H. auto.
Qed.

Lemma dkey_eqb_refl : forall x, dkey_eqb x x = true.
Proof. intro x. apply dkey_eqb_eq. reflexivity. Qed.

Lemma seen_is_mem_key : forall i l, S.seen i l = mem_key i l.
Proof. induction l as [|x l IH]; simpl; [reflexivity|]. rewrite ident_eqb_is_dkey_eqb, IH. reflexivity. Qed.

Lemma mem_key_In : forall k l, mem_key k l = true <-> In k l.
Proof.
  induction l as [|x l IH]; simpl; [split; [discriminate|tauto]|].
  rewrite orb_true_iff, IH, dkey_eqb_eq. split; intros [H|H]; auto.
Qed.

Lemma with_type_is_with_jar : forall d, S.with_type d = with_jar d.
Proof.
  intros [g a v t c s o e]. unfold S.with_type, with_jar, S.type_or_jar. simpl.
  destruct t; reflexivity.
Qed.

Lemma dep_key_with_jar : forall d, dep_key (with_jar d) = dep_key d.
Proof. intros [g a v t c s o e]. unfold with_jar, dep_key. simpl. destruct t; reflexivity. Qed.

(* ---- the Go dedupe: first declaration wins *)
(* entries of l whose identity is neither in [sn] nor carried by an earlier entry of l *)
Fixpoint firsts (sn : list dkey) (l : list dependency) : list dependency :=
  match l with
  | [] => []
  | d :: l' => if mem_key (dep_key d) sn then firsts sn l' else d :: firsts (dep_key d :: sn) l'
  end.

Lemma has_key_mem : forall k m, has_key k m = mem_key k (map dep_key m).
Proof.
  intros k m. unfold has_key. induction m as [|d m IH]; simpl; [reflexivity|].
  destruct (dkey_eqb k (dep_key d)); simpl; [reflexivity | exact IH].
Qed.

Lemma mem_key_app : forall k a b, mem_key k (a ++ b) = mem_key k a || mem_key k b.
Proof. induction a as [|x a IH]; intro b; simpl; [reflexivity|]. rewrite IH, orb_assoc. reflexivity. Qed.

(* mem_key only looks at membership *)
Lemma mem_key_ext : forall k a b, (forall x, In x a <-> In x b) -> mem_key k a = mem_key k b.
Proof.
  intros k a b H. destruct (mem_key k a) eqn:E1, (mem_key k b) eqn:E2; try reflexivity.
  - apply mem_key_In in E1. apply H in E1. apply mem_key_In in E1. congruence.
  - apply mem_key_In in E2. apply H in E2. apply mem_key_In in E2. congruence.
Qed.

Lemma firsts_ext : forall l a b, (forall x, In x a <-> In x b) -> firsts a l = firsts b l.
Proof.
  induction l as [|d l IH]; intros a b H; simpl; [reflexivity|].
  rewrite (mem_key_ext _ a b H). destruct (mem_key (dep_key d) b); [apply IH; exact H|].
  f_equal. apply IH. intro x. simpl. rewrite H. tauto.
Qed.

Lemma dedupe_into_firsts : forall l m,
  dedupe_into m l = m ++ map with_jar (firsts (map dep_key m) l).
Proof.
  induction l as [|d l IH]; intro m; simpl; [rewrite app_nil_r; reflexivity|].
  rewrite has_key_mem. destruct (mem_key (dep_key d) (map dep_key m)) eqn:E.
  - apply IH.
  - rewrite IH. rewrite <- app_assoc. simpl. do 2 f_equal.
    rewrite map_app. simpl. rewrite dep_key_with_jar.
    apply f_equal. apply firsts_ext. intro x. rewrite in_app_iff. simpl. tauto.
Qed.

(* C15 piece: what ProcessDependencies keeps is, in order, the first declaration of every identity *)
Lemma dedupe_first_wins : forall l, dedupe_into [] l = map with_jar (firsts [] l).
Proof. intro l. rewrite dedupe_into_firsts. reflexivity. Qed.

Lemma firsts_spec_in : forall l sn d, In d (firsts sn l) -> In d l /\ ~ In (dep_key d) sn.
Proof.
  induction l as [|x l IH]; intros sn d H; simpl in H; [contradiction|].
  destruct (mem_key (dep_key x) sn) eqn:E.
  - destruct (IH _ _ H). split; [right|]; assumption.
  - destruct H as [->|H].
    + split; [left; reflexivity|]. intro HI. apply mem_key_In in HI. congruence.
    + destruct (IH _ _ H) as [H1 H2]. split; [right; exact H1|]. intro HI. apply H2. right. exact HI.
Qed.

Lemma firsts_nodup : forall l sn, NoDup (map dep_key (firsts sn l)).
Proof.
  induction l as [|x l IH]; intro sn; simpl; [constructor|].
  destruct (mem_key (dep_key x) sn); [apply IH|]. simpl. constructor; [|apply IH].
  intro HI. apply in_map_iff in HI. destruct HI as [d [Hk Hd]].
  apply firsts_spec_in in Hd. destruct Hd as [_ Hn]. apply Hn. left. symmetry. exact Hk.
Qed.

(* every identity of the input is represented *)
Lemma firsts_complete : forall l sn d, In d l -> In (dep_key d) sn \/ In (dep_key d) (map dep_key (firsts sn l)).
Proof.
  induction l as [|x l IH]; intros sn d H; [contradiction|]. simpl.
  destruct (mem_key (dep_key x) sn) eqn:E.
  - destruct H as [->|H]; [left; apply mem_key_In; exact E | apply IH; exact H].
  - destruct H as [->|H]; [right; left; reflexivity|].
    destruct (IH (dep_key x :: sn) d H) as [[Hq|Hq]|Hq].
    + right. left. exact Hq.
    + left. exact Hq.
    + right. right. exact Hq.
Qed.

Lemma first_declaration_wins : forall l,
  dedupe_into [] l = map with_jar (firsts [] l) /\
  NoDup (map dep_key (firsts [] l)) /\
  (forall d, In d l -> In (dep_key d) (map dep_key (firsts [] l))).
Proof.
  intro l. split; [exact (dedupe_first_wins l)|]. split; [exact (firsts_nodup l [])|].
  intros d H. destruct (firsts_complete l [] d H) as [[]|H']; exact H'.
Qed.

(* ---- the specification's selection, when the strongest declaration is the first one *)
Lemma find_app_ : forall {A} (p : A -> bool) a b,
  find p (a ++ b) = match find p a with Some x => Some x | None => find p b end.
Proof. induction a as [|x a IH]; intro b; simpl; [reflexivity|]. destruct (p x); [reflexivity | apply IH]. Qed.

Lemma declares_eq : forall i d, S.declares i d = true <-> i = dep_key d.
Proof. intros i d. unfold S.declares. rewrite ident_eqb_is_dkey_eqb, ident_is_key. apply dkey_eqb_eq. Qed.

Lemma find_unique : forall l d, NoDup (map dep_key l) -> In d l ->
  find (S.declares (dep_key d)) l = Some d.
Proof.
  induction l as [|x l IH]; intros d ND HI; [contradiction|]. simpl.
  inversion ND as [|? ? Hn ND']; subst.
  destruct (S.declares (dep_key d) x) eqn:E.
  - apply declares_eq in E. destruct HI as [->|HI]; [reflexivity|].
    exfalso. apply Hn. rewrite <- E. apply in_map. exact HI.
  - destruct HI as [->|HI].
    + assert (S.declares (dep_key d) d = true) by (apply declares_eq; reflexivity). congruence.
    + apply IH; assumption.
Qed.

Lemma find_none_iff : forall i l, find (S.declares i) l = None <-> ~ In i (map dep_key l).
Proof.
  induction l as [|x l IH]; simpl; [tauto|].
  destruct (S.declares i x) eqn:E.
  - apply declares_eq in E. split; [discriminate | intro H; exfalso; apply H; left; symmetry; exact E].
  - rewrite IH. split; intro H.
    + intros [Hx|Hx]; [|tauto]. assert (S.declares i x = true) by (apply declares_eq; symmetry; exact Hx). congruence.
    + tauto.
Qed.

(* within a POM that declares no identity twice, the last declaration is the first *)
Lemma find_rev_nodup : forall i l, NoDup (map dep_key l) ->
  find (S.declares i) (rev l) = find (S.declares i) l.
Proof.
  intros i l ND.
  destruct (find (S.declares i) l) as [d|] eqn:E.
  - pose proof (find_some _ _ E) as [HI Hd]. apply declares_eq in Hd. subst i.
    apply find_unique; [rewrite map_rev; apply NoDup_rev; exact ND | apply in_rev; rewrite rev_involutive; exact HI].
  - apply find_none_iff. apply find_none_iff in E. rewrite map_rev. intro H. apply E. apply in_rev. exact H.
Qed.

Lemma find_priority : forall i (ls : list (list dependency)),
  Forall (fun lv => NoDup (map dep_key lv)) ls ->
  find (S.declares i) (flat_map (fun lv => rev lv) ls) = find (S.declares i) (concat ls).
Proof.
  intros i ls H. induction H as [|lv ls Hlv _ IH]; simpl; [reflexivity|].
  rewrite !find_app_, find_rev_nodup by exact Hlv. rewrite IH. reflexivity.
Qed.

Lemma first_appearances_firsts : forall l acc,
  S.first_appearances acc l = rev acc ++ map dep_key (firsts acc l).
Proof.
  induction l as [|d l IH]; intro acc; simpl; [rewrite app_nil_r; reflexivity|].
  rewrite seen_is_mem_key, ident_is_key. destruct (mem_key (dep_key d) acc); [apply IH|].
  rewrite IH. simpl. rewrite <- app_assoc. reflexivity.
Qed.

(* looking the first appearances up in the very list they come from gives them back *)
Lemma lookup_firsts : forall l p sn,
  (forall x, In x p -> In (dep_key x) sn) ->
  flat_map (fun i => match find (S.declares i) (p ++ l) with Some d => [d] | None => [] end)
           (map dep_key (firsts sn l)) = firsts sn l.
Proof.
  induction l as [|d l IH]; intros p sn Hp; simpl; [reflexivity|].
  destruct (mem_key (dep_key d) sn) eqn:E.
  - replace (p ++ d :: l) with ((p ++ [d]) ++ l) by (rewrite <- app_assoc; reflexivity).
    apply IH. intros x Hx. apply in_app_iff in Hx. destruct Hx as [Hx|[<-|[]]]; [apply Hp; exact Hx | apply mem_key_In; exact E].
  - simpl.
    assert (F : find (S.declares (dep_key d)) (p ++ d :: l) = Some d).
    { rewrite find_app_.
      assert (N : find (S.declares (dep_key d)) p = None).
      { apply find_none_iff. intro HI. apply in_map_iff in HI. destruct HI as [x [Hk Hx]].
        apply Hp in Hx. rewrite Hk in Hx. apply mem_key_In in Hx. congruence. }
      rewrite N. simpl. assert (S.declares (dep_key d) d = true) by (apply declares_eq; reflexivity).
      rewrite H. reflexivity. }
    rewrite F. simpl. f_equal.
    replace (p ++ d :: l) with ((p ++ [d]) ++ l) by (rewrite <- app_assoc; reflexivity).
    apply IH. intros x Hx. apply in_app_iff in Hx. destruct Hx as [Hx|[<-|[]]]; [right; apply Hp; exact Hx | left; reflexivity].
Qed.

Lemma first_wins_firsts : forall l, S.first_wins l = firsts [] l.
Proof.
  intro l. unfold S.first_wins, S.select. rewrite first_appearances_firsts. simpl.
  apply (lookup_firsts l [] []). intros x [].
Qed.

(* C15 piece (R1-R4 against ProcessDependencies): for a lineage given as the document-order
   lists of its POMs (nearest first), none of which declares an identity twice, the entries the
   Go code keeps are exactly Maven's selection, in the same order. *)
Theorem selection_refines : forall ls : list (list dependency),
  Forall (fun lv => NoDup (map S.ident_of lv)) ls ->
  dedupe_into [] (concat ls) = map S.with_type (S.select (concat ls) (flat_map (fun lv => rev lv) ls)).
Proof.
  intros ls H. rewrite dedupe_first_wins.
  rewrite (map_ext _ _ with_type_is_with_jar). f_equal.
  rewrite <- first_wins_firsts. unfold S.first_wins, S.select.
  apply flat_map_ext. intro i. rewrite find_priority; [reflexivity|].
  eapply Forall_impl; [|exact H]. intros lv Hlv. exact Hlv.
Qed.

(* ... and without that hypothesis the two differ: one POM declaring g:a twice *)
Definition dep_ga (v : bytes) : dependency := mkDep [103] [97] v [] [] [] [] [].
Lemma selection_differs :
  let ls := [[dep_ga [49]; dep_ga [50]]] in
  dedupe_into [] (concat ls) <> map S.with_type (S.select (concat ls) (flat_map (fun lv => rev lv) ls)).
Proof. vm_compute. discriminate. Qed.

(* ---- R5: property priority *)
Lemma lookup_is_value_of : forall k t, lookup k t = S.value_of k t.
Proof.
  intros k t. unfold S.value_of. induction t as [|[k' v] t IH]; simpl; [reflexivity|].
  destruct (bytes_eqb k k'); [reflexivity | exact IH].
Qed.

(* Properties.merge puts the parent's list in front, so after merging the ancestors one by one
   the list reads farthest POM first; reversing it reads nearest first, and inside a POM last
   declaration first. *)
Lemma merged_props_rev : forall (levels : list (list (bytes * bytes))) acc,
  rev (fold_left (fun a lv => lv ++ a) levels acc) = rev acc ++ flat_map (fun lv => rev lv) levels.
Proof.
  induction levels as [|lv levels IH]; intro acc; simpl; [rewrite app_nil_r; reflexivity|].
  rewrite IH, rev_app_distr, <- app_assoc. reflexivity.
Qed.

Theorem props_priority : forall (levels : list (list (bytes * bytes))) g v pg pv k,
  lookup k (property_map (fold_left (fun a lv => lv ++ a) levels []) g v pg pv)
  = S.value_of k (S.property_table g v pg pv levels).
Proof.
  intros levels g v pg pv k. rewrite lookup_is_value_of. f_equal.
  unfold property_map, S.property_table. rewrite merged_props_rev. simpl.
  unfold builtin_prefixed, builtin_plain, S.prefixed, S.plain, S.blank.
  destruct g, v, pg, pv; simpl; rewrite ?app_nil_r; reflexivity.
Qed.

(* the model's own merges produce exactly that fold *)
Lemma merge_parent_props : forall p q, p_props (merge_parent p q) = p_props q ++ p_props p.
Proof. reflexivity. Qed.

Lemma inject_profiles_props : forall act p,
  p_props (fold_left inject_profile act p) = p_props p ++ flat_map pf_props act.
Proof.
  induction act as [|pf act IH]; intro p; simpl; [rewrite app_nil_r; reflexivity|].
  rewrite IH. simpl. rewrite <- app_assoc. reflexivity.
Qed.

Lemma inject_profiles_deps : forall act p,
  p_deps (fold_left inject_profile act p) = p_deps p ++ flat_map pf_deps act.
Proof.
  induction act as [|pf act IH]; intro p; simpl; [rewrite app_nil_r; reflexivity|].
  rewrite IH. simpl. rewrite <- app_assoc. reflexivity.
Qed.

Lemma inject_profiles_mgmt : forall act p,
  p_mgmt (fold_left inject_profile act p) = p_mgmt p ++ flat_map pf_mgmt act.
Proof.
  induction act as [|pf act IH]; intro p; simpl; [rewrite app_nil_r; reflexivity|].
  rewrite IH. simpl. rewrite <- app_assoc. reflexivity.
Qed.

(* ---- R8: injection of managed values *)
Lemma find_key_is_find : forall k m, find_key k m = find (S.declares k) m.
Proof.
  intros k m. induction m as [|d m IH]; simpl; [reflexivity|].
  unfold S.declares at 1. change (S.ident_eqb k (S.ident_of d)) with (dkey_eqb k (dep_key d)).
  destruct (dkey_eqb k (dep_key d)); [reflexivity | exact IH].
Qed.

Theorem fill_in_is_inject : forall m d, fill_in m d = S.inject m d.
Proof.
  intros m d. unfold fill_in, S.inject. rewrite find_key_is_find. change (S.ident_of d) with (dep_key d).
  destruct (find (S.declares (dep_key d)) m); reflexivity.
Qed.

(* only empty fields change, and only to the managed value; the rest of the dependency stays *)
Theorem fill_in_only_when_empty : forall m d,
  let d' := fill_in m d in
  d_group d' = d_group d /\ d_artifact d' = d_artifact d /\ d_type d' = d_type d /\
  d_classifier d' = d_classifier d /\ d_optional d' = d_optional d /\
  (d_version d <> [] -> d_version d' = d_version d) /\
  (d_scope d <> [] -> d_scope d' = d_scope d) /\
  (d_excl d <> [] -> d_excl d' = d_excl d).
Proof.
  intros m d. unfold fill_in. destruct (find_key (dep_key d) m) as [dm|]; simpl.
  - repeat split; intro H.
    + destruct (d_version d); [contradiction | reflexivity].
    + destruct (d_scope d); [contradiction | reflexivity].
    + destruct (d_excl d); [contradiction | reflexivity].
  - repeat split; reflexivity.
Qed.

(* ---- the import loop: the cap only matters when it is hit *)
Section Cap.
  Variable get : bytes -> bytes -> bytes -> res (list dependency).

  (* rounds the loop needs; None when n is not enough *)
  Fixpoint import_rounds (n : nat) (queue : list dependency) (imported : list dkey) (m : list dependency) : option nat :=
    match queue with
    | [] => Some O
    | d :: q =>
        match n with
        | O => None
        | S n' =>
            let dk := dep_key d in
            let next :=
              if mem_key dk imported then import_rounds n' q imported m
              else if negb (bytes_eqb (d_type (with_jar d)) s_pom) then import_rounds n' q (dk :: imported) m
              else match get (d_group d) (d_artifact d) (d_version d) with
                   | Ok dm => let '(m', imps) := add_dep_management dm m [] in import_rounds n' (imps ++ q) (dk :: imported) m'
                   | _ => import_rounds n' q (dk :: imported) m
                   end in
            match next with Some k => Some (S k) | None => None end
        end
    end.

  (* once the queue empties within n rounds, any larger cap gives the same result *)
  Lemma import_loop_cap : forall n queue imported m k,
    import_rounds n queue imported m = Some k ->
    forall n', (n <= n')%nat -> import_loop get n' queue imported m = import_loop get n queue imported m.
  Proof.
    induction n as [|n IH]; intros queue imported m k H n' Hle.
    - destruct queue; [|discriminate]. destruct n'; reflexivity.
    - destruct n' as [|n']; [lia|]. destruct queue as [|d q]; [reflexivity|].
      cbn [import_rounds] in H. cbn [import_loop].
      destruct (mem_key (dep_key d) imported).
      + destruct (import_rounds n q imported m) eqn:E; [|discriminate]. eapply IH; [exact E | lia].
      + destruct (negb (bytes_eqb (d_type (with_jar d)) s_pom)).
        * destruct (import_rounds n q (dep_key d :: imported) m) eqn:E; [|discriminate]. eapply IH; [exact E | lia].
        * destruct (get (d_group d) (d_artifact d) (d_version d)) as [dm| | |].
          -- destruct (add_dep_management dm m []) as [m' imps].
             destruct (import_rounds n (imps ++ q) (dep_key d :: imported) m') eqn:E; [|discriminate].
             eapply IH; [exact E | lia].
          -- destruct (import_rounds n q (dep_key d :: imported) m) eqn:E; [|discriminate]. eapply IH; [exact E | lia].
          -- reflexivity.
          -- reflexivity.
  Qed.
End Cap.
