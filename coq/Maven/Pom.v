(* Data of a decoded POM (util/maven Project, Profile, Dependency), shared by the model
   (Maven/Project.v) and the specification (Spec/MavenModelSpec.v).  No behaviour here. *)
From DepsDev Require Import Lib.Base.

Definition s_jar : bytes := [106;97;114].
Definition s_pom : bytes := [112;111;109].
Definition s_import : bytes := [105;109;112;111;114;116].
Definition s_true : bytes := [116;114;117;101].
Definition c_bang : N := 33.

Definition E_cycle : N := 1.      (* cycle of parent projects *)
Definition E_fetch : N := 2.      (* project not found *)
Definition E_packaging : N := 3.  (* parent whose packaging is not pom *)
Definition E_profile : N := 4.    (* activation error (JDK specification) *)
Definition E_oracle : N := 5.     (* the jdk table of the case lacks an entry *)

Record dependency := mkDep {
  d_group : bytes; d_artifact : bytes; d_version : bytes; d_type : bytes;
  d_classifier : bytes; d_scope : bytes; d_optional : bytes;
  d_excl : list (bytes * bytes) }.

Record os_t := mkOS { os_name : bytes; os_family : bytes; os_arch : bytes; os_version : bytes }.

Record activation := mkAct {
  act_default : bytes;        (* FalsyBool *)
  act_jdk : bytes;
  act_os : os_t;
  act_pname : bytes; act_pvalue : bytes }.

Record profile := mkProfile {
  pf_id : bytes; pf_act : activation;
  pf_props : list (bytes * bytes); pf_deps : list dependency; pf_mgmt : list dependency }.

Record project := mkProject {
  p_group : bytes; p_artifact : bytes; p_version : bytes;
  par_group : bytes; par_artifact : bytes; par_version : bytes;
  p_packaging : bytes;
  p_props : list (bytes * bytes);
  p_deps : list dependency; p_mgmt : list dependency;
  p_profiles : list profile }.

Definition empty_project : project := mkProject [] [] [] [] [] [] [] [] [] [] [].

Definition is_empty (s : bytes) : bool := match s with [] => true | _ => false end.
