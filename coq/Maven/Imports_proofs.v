(* R7 against the import loop of ProcessDependencies.  The imports of a project form a forest:
   a node is an import-scoped entry, what fetching it returns, and the nodes of the import-scoped
   entries among that.  Maven's rule: the effective management of an imported project is its own
   entries followed by those of its imports in order, the first of an identity winning; the
   importing project takes its own entries, then the imports' in order, first wins.
   The Go loop keeps a queue (nested imports go to the front), a set of imports already done,
   and a cap.  They agree when no two imports have the same (group, artifact, type, classifier),
   every import has type pom and can be fetched, and the forest has at most cap nodes. *)
From Coq Require Import Lia.
From DepsDev Require Import Lib.Base Gen.PomTables Maven.Pom Maven.Interp Maven.Interp_proofs Maven.Project Maven.Project_proofs.
From DepsDev Require Spec.MavenModelSpec.

Inductive itree : Type := INode (entry : dependency) (fetched : list dependency) (kids : list itree).

Definition root (t : itree) : dependency := match t with INode e _ _ => e end.
Definition is_imp (d : dependency) : bool := bytes_eqb (d_scope d) s_import.
Definition own_of (l : list dependency) : list dependency := filter (fun d => negb (is_imp d)) l.
Definition imps_of (l : list dependency) : list dependency := filter is_imp l.

Fixpoint flat (t : itree) : list dependency :=
  match t with INode _ f kids => own_of f ++ flat_map flat kids end.

Fixpoint size (t : itree) : nat :=
  match t with INode _ _ kids => S (fold_right (fun k n => size k + n)%nat O kids) end.
Definition fsize (F : list itree) : nat := fold_right (fun k n => size k + n)%nat O F.

Fixpoint keys (t : itree) : list dkey :=
  match t with INode e _ kids => dep_key e :: flat_map keys kids end.

(* Maven, R7: the effective management an import contributes *)
Fixpoint managed_of (t : itree) : list dependency :=
  match t with INode _ f kids => MavenModelSpec.first_wins (own_of f ++ flat_map managed_of kids) end.

Section Imports.
  Variable get : bytes -> bytes -> bytes -> res (list dependency).

  Fixpoint wf (t : itree) : Prop :=
    match t with
    | INode e f kids =>
        bytes_eqb (d_type (with_jar e)) s_pom = true /\
        get (d_group e) (d_artifact e) (d_version e) = Ok f /\
        map root kids = imps_of f /\
        (fix all (l : list itree) : Prop := match l with [] => True | k :: l' => wf k /\ all l' end) kids
    end.

  Fixpoint wf_all (F : list itree) : Prop := match F with [] => True | k :: F' => wf k /\ wf_all F' end.

  Lemma wf_unfold : forall e f kids, wf (INode e f kids) <->
    bytes_eqb (d_type (with_jar e)) s_pom = true /\ get (d_group e) (d_artifact e) (d_version e) = Ok f /\
    map root kids = imps_of f /\ wf_all kids.
  Proof.
    intros e f kids. simpl. assert (H : forall l, (fix all (l : list itree) : Prop :=
      match l with [] => True | k :: l' => wf k /\ all l' end) l <-> wf_all l).
    { induction l as [|k l IH]; simpl; [tauto|]. rewrite IH. tauto. }
    rewrite H. tauto.
  Qed.

  Lemma wf_all_app : forall A B, wf_all (A ++ B) <-> wf_all A /\ wf_all B.
  Proof. induction A as [|k A IH]; intro B; simpl; [tauto|]. rewrite IH. tauto. Qed.

  Lemma add_dep_management_spec : forall deps m imps,
    add_dep_management deps m imps = (dedupe_into m (own_of deps), imps ++ imps_of deps).
  Proof.
    induction deps as [|d deps IH]; intros m imps; [simpl; rewrite app_nil_r; reflexivity|].
    cbn [add_dep_management]. unfold own_of, imps_of. cbn [filter]. unfold is_imp.
    destruct (bytes_eqb (d_scope d) s_import) eqn:E; cbn [negb].
    - rewrite IH. unfold own_of, imps_of, is_imp. rewrite <- app_assoc. reflexivity.
    - cbn [dedupe_into]. destruct (has_key (dep_key d) m); rewrite IH; reflexivity.
  Qed.

  Lemma dedupe_into_app : forall a b m, dedupe_into m (a ++ b) = dedupe_into (dedupe_into m a) b.
  Proof.
    induction a as [|d a IH]; intros b m; simpl; [reflexivity|].
    destruct (has_key (dep_key d) m); apply IH.
  Qed.

  Lemma fsize_app : forall A B, fsize (A ++ B) = (fsize A + fsize B)%nat.
  Proof. induction A as [|k A IH]; intro B; simpl; [reflexivity|]. rewrite IH. lia. Qed.

  Lemma flat_map_app_ : forall {X Y} (f : X -> list Y) a b, flat_map f (a ++ b) = flat_map f a ++ flat_map f b.
  Proof. intros. apply flat_map_app. Qed.

  (* the loop walks the forest depth first and adds what is new *)
  Lemma import_loop_forest : forall n F imported m,
    (fsize F <= n)%nat -> wf_all F ->
    NoDup (flat_map keys F) -> (forall k, In k (flat_map keys F) -> ~ In k imported) ->
    import_loop get n (map root F) imported m = Ok (dedupe_into m (flat_map flat F)).
  Proof.
    induction n as [|n IH]; intros F imported m Hn Hwf Hnd Hdis.
    - destruct F as [|[e f kids] F]; [reflexivity | unfold fsize in Hn; cbn [fold_right size] in Hn; lia].
    - destruct F as [|[e f kids] F]; [reflexivity|].
      simpl in Hwf. destruct Hwf as [Ht HF]. apply wf_unfold in Ht. destruct Ht as [Htype [Hget [Hkids Hwk]]].
      cbn [map root import_loop].
      assert (M : mem_key (dep_key e) imported = false).
      { destruct (mem_key (dep_key e) imported) eqn:E; [|reflexivity]. exfalso.
        apply mem_key_In in E. apply (Hdis (dep_key e)); [simpl; left; reflexivity | exact E]. }
      rewrite M, Htype. cbn [negb]. rewrite Hget, add_dep_management_spec. cbn [app].
      rewrite <- Hkids, <- map_app.
      simpl in Hnd. inversion Hnd as [|? ? Hnot Hnd']; subst.
      rewrite IH.
      + f_equal. cbn [flat_map flat]. rewrite <- !app_assoc, dedupe_into_app.
        rewrite flat_map_app_. reflexivity.
      + rewrite fsize_app. unfold fsize in *. cbn [fold_right size] in Hn. lia.
      + apply wf_all_app. split; assumption.
      + rewrite flat_map_app_. exact Hnd'.
      + intros k Hk [Hk'|Hk'].
        * subst k. apply Hnot. rewrite flat_map_app_ in Hk. exact Hk.
        * apply (Hdis k); [simpl; right; rewrite flat_map_app_ in Hk; exact Hk | exact Hk'].
  Qed.

  (* ---- first-wins absorbs a nested first-wins *)
  Lemma firsts_app : forall x y sn,
    firsts sn (x ++ y) = firsts sn x ++ firsts (map dep_key (firsts sn x) ++ sn) y.
  Proof.
    induction x as [|d x IH]; intros y sn; simpl; [reflexivity|].
    destruct (mem_key (dep_key d) sn); [apply IH|].
    simpl. f_equal. rewrite IH. f_equal. apply firsts_ext. intro k. simpl. rewrite !in_app_iff. simpl. tauto.
  Qed.

  Lemma firsts_idem : forall b sn' sn, incl sn' sn -> firsts sn (firsts sn' b) = firsts sn b.
  Proof.
    induction b as [|d b IH]; intros sn' sn Hinc; simpl; [reflexivity|].
    destruct (mem_key (dep_key d) sn') eqn:E'.
    - assert (E : mem_key (dep_key d) sn = true) by (apply mem_key_In; apply Hinc; apply mem_key_In; exact E').
      rewrite E. apply IH. exact Hinc.
    - simpl. destruct (mem_key (dep_key d) sn) eqn:E.
      + apply IH. intros k [<-|Hk]; [apply mem_key_In; exact E | apply Hinc; exact Hk].
      + f_equal. apply IH. intros k [<-|Hk]; [left; reflexivity | right; apply Hinc; exact Hk].
  Qed.

  Lemma firsts_absorb : forall a b c sn,
    firsts sn (a ++ firsts [] b ++ c) = firsts sn (a ++ b ++ c).
  Proof.
    intros a b c sn. rewrite !firsts_app. f_equal.
    rewrite firsts_idem by (intros k []). reflexivity.
  Qed.

  (* proper induction on import trees *)
  Lemma itree_induction : forall P : itree -> Prop,
    (forall e f kids, (forall k, In k kids -> P k) -> P (INode e f kids)) -> forall t, P t.
  Proof.
    intros P H. fix IH 1. intros [e f kids]. apply H.
    induction kids as [|k kids IHk]; intros x Hx; [contradiction|].
    destruct Hx as [<-|Hx]; [apply IH | apply IHk; exact Hx].
  Qed.

  Lemma managed_flat_forest : forall F,
    (forall k, In k F -> forall a c sn, firsts sn (a ++ managed_of k ++ c) = firsts sn (a ++ flat k ++ c)) ->
    forall a c sn, firsts sn (a ++ flat_map managed_of F ++ c) = firsts sn (a ++ flat_map flat F ++ c).
  Proof.
    induction F as [|k F IH]; intros H a c sn; simpl; [reflexivity|].
    rewrite <- !app_assoc. rewrite (H k (or_introl eq_refl)).
    replace (a ++ flat k ++ flat_map managed_of F ++ c) with ((a ++ flat k) ++ flat_map managed_of F ++ c)
      by (rewrite <- app_assoc; reflexivity).
    rewrite IH by (intros x Hx; apply H; right; exact Hx).
    rewrite <- app_assoc. reflexivity.
  Qed.

  Lemma managed_flat : forall t a c sn,
    firsts sn (a ++ managed_of t ++ c) = firsts sn (a ++ flat t ++ c).
  Proof.
    induction t as [e f kids IH] using itree_induction. intros a c sn.
    cbn [managed_of flat]. rewrite first_wins_firsts, firsts_absorb.
    rewrite <- !app_assoc.
    replace (a ++ own_of f ++ flat_map managed_of kids ++ c) with ((a ++ own_of f) ++ flat_map managed_of kids ++ c)
      by (rewrite <- app_assoc; reflexivity).
    rewrite (managed_flat_forest kids IH). rewrite <- app_assoc. reflexivity.
  Qed.

  (* C15 piece (R7): the managed list after the import loop is Maven's - own entries, then the
     effective management of every import in order, depth first, the first of an identity
     winning - with the cap never reached *)
  Theorem import_order_refines : forall n (own : list dependency) (F : list itree),
    (fsize F <= n)%nat -> wf_all F -> NoDup (flat_map keys F) ->
    import_loop get n (map root F) [] (dedupe_into [] own)
    = Ok (map MavenModelSpec.with_type (MavenModelSpec.first_wins (own ++ flat_map managed_of F))).
  Proof.
    intros n own F Hn Hwf Hnd.
    rewrite import_loop_forest by (auto; intros k _ []).
    f_equal. rewrite <- dedupe_into_app, dedupe_first_wins.
    rewrite (map_ext _ _ with_type_is_with_jar). f_equal.
    rewrite first_wins_firsts.
    pose proof (managed_flat_forest F (fun k _ => managed_flat k) own [] []) as H.
    rewrite !app_nil_r in H. symmetry. exact H.
  Qed.

  (* the same, said of ProcessDependencies with its cap MaxImports: the managed list it returns,
     and the dependencies are the deduped ones filled in from that list *)
  Theorem process_dependencies_managed : forall (p : project) (F : list itree),
    map root F = imps_of (p_mgmt p) ->
    (fsize F <= max_imports)%nat -> wf_all F -> NoDup (flat_map keys F) ->
    let managed := map MavenModelSpec.with_type
                       (MavenModelSpec.first_wins (own_of (p_mgmt p) ++ flat_map managed_of F)) in
    process_dependencies get p = Ok (map (fill_in managed) (dedupe_into [] (p_deps p)), managed).
  Proof.
    intros p F HF Hn Hwf Hnd managed. unfold process_dependencies.
    rewrite add_dep_management_spec. cbn [app]. rewrite <- HF.
    rewrite (import_order_refines max_imports (own_of (p_mgmt p)) F Hn Hwf Hnd). reflexivity.
  Qed.
End Imports.

(* ---- the management-injection rule of ProcessDependencies, for every project and every lookup *)

(* the managed entry of a dependency: the entry of the managed list with its identity *)
Definition managed_entry (m : list dependency) (d : dependency) : option dependency := find_key (dep_key d) m.

(* own value wins; the managed value fills an empty one (version, scope, exclusions); the optional
   flag and the identity are never touched; no managed entry, no change *)
Definition injection_rule (m : list dependency) (d d' : dependency) : Prop :=
  d_group d' = d_group d /\ d_artifact d' = d_artifact d /\ d_type d' = d_type d /\
  d_classifier d' = d_classifier d /\ d_optional d' = d_optional d /\
  match managed_entry m d with
  | None => d' = d
  | Some dm =>
      d_version d' = (if is_empty (d_version d) then d_version dm else d_version d) /\
      d_scope d' = (if is_empty (d_scope d) then d_scope dm else d_scope d) /\
      d_excl d' = (match d_excl d with [] => d_excl dm | _ => d_excl d end)
  end.

Lemma fill_in_rule : forall m d, injection_rule m d (fill_in m d).
Proof.
  intros m d. unfold injection_rule, managed_entry, fill_in.
  destruct (find_key (dep_key d) m) as [dm|]; simpl; repeat split; reflexivity.
Qed.

Lemma NoDup_app_ok : forall {A} (a b : list A),
  NoDup a -> NoDup b -> (forall x, In x a -> In x b -> False) -> NoDup (a ++ b).
Proof.
  induction a as [|x a IH]; intros b Ha Hb Hd; simpl; [exact Hb|].
  inversion Ha; subst. constructor.
  - intro Hin. apply in_app_iff in Hin. destruct Hin as [Hin|Hin]; [contradiction | apply (Hd x); [left; reflexivity | exact Hin]].
  - apply IH; auto. intros y Hy Hy2. apply (Hd y); [right; exact Hy | exact Hy2].
Qed.

(* one entry per identity in what the dedupe steps build *)
Lemma dedupe_into_nodup : forall l m, NoDup (map dep_key m) -> NoDup (map dep_key (dedupe_into m l)).
Proof.
  intros l m H. rewrite dedupe_into_firsts, map_app, map_map.
  rewrite (map_ext (fun x => dep_key (with_jar x)) dep_key dep_key_with_jar).
  apply NoDup_app_ok; [exact H | apply firsts_nodup|].
  intros k Hk Hk2. apply in_map_iff in Hk2. destruct Hk2 as [d [Hd Hin]].
  apply firsts_spec_in in Hin. destruct Hin as [_ Hn]. apply Hn. rewrite Hd. exact Hk.
Qed.

Section Injection.
  Variable get : bytes -> bytes -> bytes -> res (list dependency).

  Lemma import_loop_nodup : forall n queue imported m m',
    NoDup (map dep_key m) -> import_loop get n queue imported m = Ok m' -> NoDup (map dep_key m').
  Proof.
    induction n as [|n IH]; intros queue imported m m' H E.
    - simpl in E. inversion E; subst. exact H.
    - cbn [import_loop] in E. destruct queue as [|d q]; [inversion E; subst; exact H|].
      destruct (mem_key (dep_key d) imported); [eapply IH; eauto|].
      destruct (negb (bytes_eqb (d_type (with_jar d)) s_pom)); [eapply IH; eauto|].
      destruct (get (d_group d) (d_artifact d) (d_version d)) as [dm| | |]; try discriminate.
      + rewrite add_dep_management_spec in E. eapply IH; [|exact E]. apply dedupe_into_nodup. exact H.
      + eapply IH; eauto.
  Qed.

  (* C15 (dependency-management injection): whatever the project and whatever the lookups return,
     ProcessDependencies yields the first declaration of every dependency, each changed exactly by
     the injection rule against the managed list it also returns, and that list has one entry per
     identity (so "the managed entry" is unambiguous) *)
  Theorem process_dependencies_injection : forall (p : project) deps m,
    process_dependencies get p = Ok (deps, m) ->
    NoDup (map dep_key m) /\
    Forall2 (injection_rule m) (dedupe_into [] (p_deps p)) deps.
  Proof.
    intros p deps m E. unfold process_dependencies in E. rewrite add_dep_management_spec in E. cbn [app] in E.
    destruct (import_loop get max_imports (imps_of (p_mgmt p)) [] (dedupe_into [] (own_of (p_mgmt p)))) as [m1| | |] eqn:L;
      try discriminate.
    cbn [bind] in E. inversion E; subst. split.
    - eapply import_loop_nodup; [|exact L]. apply dedupe_into_nodup. constructor.
    - clear E L. induction (dedupe_into [] (p_deps p)) as [|d l IH]; simpl; constructor; [apply fill_in_rule | exact IH].
  Qed.
End Injection.

(* the rule distinguishes: an own exclusion list survives a managed one, an empty one is filled *)
Example injection_rule_inhabited :
  let dm := mkDep [103] [97] [50] s_jar [] [116] [116;114;117;101] [([120], [121])] in
  let own := mkDep [103] [97] [] [] [] [] [] [([104], [42])] in
  let bare := mkDep [103] [97] [49] [] [] [114] [] [] in
  fill_in [dm] own = mkDep [103] [97] [50] [] [] [116] [] [([104], [42])] /\
  fill_in [dm] bare = mkDep [103] [97] [49] [] [] [114] [] [([120], [121])].
Proof. vm_compute. split; reflexivity. Qed.
