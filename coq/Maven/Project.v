(* Model of util/maven/project.go, profile.go, dependency.go and of the documented pipeline
   (examples/go/maven_parse_resolve mergeParents, util/resolve/maven.go).  The input is the
   decoded Project record: XML decoding is outside the model.  Only the fields that can reach
   Dependencies / DependencyManagement are kept.  Definitions only. *)
From DepsDev Require Import Lib.Base Gen.PomTables Maven.Pom Maven.Interp.

(* String.merge *)
Definition merge_string (s s2 : bytes) : bytes := if is_empty s then s2 else s.

(* Project.MergeParent: group and version are filled when empty; Properties.merge puts the
   parent's properties first; dependency management and dependencies append the parent's. *)
Definition merge_parent (p parent : project) : project :=
  mkProject (merge_string (p_group p) (p_group parent)) (p_artifact p) (merge_string (p_version p) (p_version parent))
            (par_group p) (par_artifact p) (par_version p)
            (p_packaging p)
            (p_props parent ++ p_props p)
            (p_deps p ++ p_deps parent)
            (p_mgmt p ++ p_mgmt parent)
            (p_profiles p).

(* ---- profile activation *)
Definition os_blank (o : os_t) : bool :=
  is_empty (os_name o) && is_empty (os_family o) && is_empty (os_arch o) && is_empty (os_version o).

Definition starts_bang (s : bytes) : bool := match s with c :: _ => c =? c_bang | [] => false end.

(* isAllowed(value, expected) *)
Definition is_allowed (value expected : bytes) : bool :=
  if is_empty value then true
  else
    let negate := starts_bang value in
    let got := to_lower (if negate then tl value else value) in
    if negate then negb (bytes_eqb got expected) else bytes_eqb got expected.

Section Activation.
  (* The JDK clause of Profile.activated (ParseConstraint, IsSimple, Difference, Match of the
     Maven semver code) as an oracle: Ok true = clause passes, Ok false = profile not
     activated, Err = error.  The correspondence supplies its values from Go. *)
  Variable jdk_matches : bytes -> bytes -> res bool.

  Definition activated (jdk : bytes) (os : os_t) (pf : profile) : res bool :=
    if is_empty jdk && os_blank os then Ok false
    else
      let act := pf_act pf in
      r1 <- (if is_empty (act_jdk act) then Ok (Some false)
             else b <- jdk_matches (act_jdk act) jdk ;; Ok (if b then Some true else None)) ;;
      match r1 with
      | None => Ok false
      | Some res1 =>
          let o := act_os act in
          let os_clause :=
            if os_blank o then Some res1
            else if is_allowed (os_family o) (os_family os) && is_allowed (os_name o) (os_name os)
                    && is_allowed (os_version o) (os_version os) && is_allowed (os_arch o) (os_arch os)
                 then Some true else None in
          match os_clause with
          | None => Ok false
          | Some res2 =>
              if is_empty (act_pname act) then Ok res2
              else if is_empty (act_pvalue act) then
                     (if starts_bang (act_pname act) then Ok true else Ok false)
                   else (if starts_bang (act_pvalue act) then Ok true else Ok false)
          end
      end.

  (* FalsyBool.Boolean *)
  Definition falsy_bool (s : bytes) : bool := bytes_eqb s s_true.

  Definition inject_profile (p : project) (pf : profile) : project :=
    mkProject (p_group p) (p_artifact p) (p_version p) (par_group p) (par_artifact p) (par_version p)
              (p_packaging p)
              (p_props p ++ pf_props pf)
              (p_deps p ++ pf_deps pf)
              (p_mgmt p ++ pf_mgmt pf)
              (p_profiles p).

  (* Project.MergeProfiles: an activation error is remembered, the other profiles are still
     examined; the callers of the pipeline return on the error. *)
  Fixpoint select_profiles (jdk : bytes) (os : os_t) (l : list profile)
    : res (bool * list profile * list profile) :=
    match l with
    | [] => Ok (false, [], [])
    | pf :: l' =>
        r <- select_profiles jdk os l' ;;
        let '(err, act, def) := r in
        let def' := if falsy_bool (act_default (pf_act pf)) then pf :: def else def in
        match activated jdk os pf with
        | Ok true => Ok (err, pf :: act, def')
        | Ok false => Ok (err, act, def')
        | Err _ => Ok (true, act, def')
        | Panic x => Panic x
        | OutOfFuel => OutOfFuel
        end
    end.

  Definition merge_profiles (jdk : bytes) (os : os_t) (p : project) : res project :=
    r <- select_profiles jdk os (p_profiles p) ;;
    let '(err, act, def) := r in
    if err then Err E_profile
    else Ok (fold_left inject_profile (match act with [] => def | _ => act end) p).

  (* ---- Project.Interpolate (what reaches the dependency lists) *)
  Definition interp_dep (dc : dict) (d : dependency) : res (dependency * bool) :=
    g <- interpolate_string dc (d_group d) ;;
    a <- interpolate_string dc (d_artifact d) ;;
    v <- interpolate_string dc (d_version d) ;;
    s <- interpolate_string dc (d_scope d) ;;
    t <- interpolate_string dc (d_type d) ;;
    c <- interpolate_string dc (d_classifier d) ;;
    o <- interpolate_string dc (d_optional d) ;;
    Ok (mkDep (fst g) (fst a) (fst v) (fst t) (fst c) (fst s) (fst o) (d_excl d),
        snd g && snd a && snd v && snd s && snd t && snd c && snd o).

  (* Entries without group or artifact are skipped; an entry is kept only when every one of
     its seven fields resolved.  Exclusions are not interpolated. *)
  Fixpoint interp_deps (dc : dict) (l : list dependency) : res (list dependency) :=
    match l with
    | [] => Ok []
    | d :: l' =>
        rest <- interp_deps dc l' ;;
        if is_empty (d_group d) || is_empty (d_artifact d) then Ok rest
        else r <- interp_dep dc d ;; Ok (if snd r then fst r :: rest else rest)
    end.

  Definition project_dict (p : project) : dict :=
    property_map (p_props p) (p_group p) (p_version p) (par_group p) (par_version p).

  Definition interpolate (p : project) : res project :=
    let dc := project_dict p in
    pk <- interpolate_string dc (p_packaging p) ;;
    deps <- interp_deps dc (p_deps p) ;;
    mgmt <- interp_deps dc (p_mgmt p) ;;
    Ok (mkProject (p_group p) (p_artifact p) (p_version p) (par_group p) (par_artifact p) (par_version p)
                  (fst pk) (p_props p) deps mgmt (p_profiles p)).
End Activation.

(* ---- Project.ProcessDependencies *)
Definition dkey := (bytes * bytes * bytes * bytes)%type.

Definition dkey_eqb (a b : dkey) : bool :=
  let '(g1, a1, t1, c1) := a in
  let '(g2, a2, t2, c2) := b in
  bytes_eqb g1 g2 && bytes_eqb a1 a2 && bytes_eqb t1 t2 && bytes_eqb c1 c2.

(* Dependency.Key writes the default type into the dependency it is called on. *)
Definition with_jar (d : dependency) : dependency :=
  if is_empty (d_type d)
  then mkDep (d_group d) (d_artifact d) (d_version d) s_jar (d_classifier d) (d_scope d) (d_optional d) (d_excl d)
  else d.

Definition dep_key (d : dependency) : dkey :=
  (d_group d, d_artifact d, (if is_empty (d_type d) then s_jar else d_type d), d_classifier d).

Fixpoint find_key (k : dkey) (m : list dependency) : option dependency :=
  match m with
  | [] => None
  | d :: m' => if dkey_eqb k (dep_key d) then Some d else find_key k m'
  end.

Definition has_key (k : dkey) (m : list dependency) : bool :=
  match find_key k m with Some _ => true | None => false end.

(* The pair (map, key slice) of the Go code is the list of stored values in key-slice order. *)
Fixpoint dedupe_into (m : list dependency) (l : list dependency) : list dependency :=
  match l with
  | [] => m
  | d :: l' => if has_key (dep_key d) m then dedupe_into m l' else dedupe_into (m ++ [with_jar d]) l'
  end.

(* addDepManagement: import-scoped entries are set aside (as they are), the others are added
   unless their key is present. *)
Fixpoint add_dep_management (deps : list dependency) (m : list dependency) (imports : list dependency)
  : list dependency * list dependency :=
  match deps with
  | [] => (m, imports)
  | d :: deps' =>
      if bytes_eqb (d_scope d) s_import then add_dep_management deps' m (imports ++ [d])
      else if has_key (dep_key d) m then add_dep_management deps' m imports
      else add_dep_management deps' (m ++ [with_jar d]) imports
  end.

Fixpoint mem_key (k : dkey) (l : list dkey) : bool :=
  match l with [] => false | x :: l' => dkey_eqb k x || mem_key k l' end.

Section Process.
  (* getDependencyManagement(group, artifact, version) *)
  Variable get_mgmt : bytes -> bytes -> bytes -> res (list dependency).

  (* for ; n < MaxImports && len(imports) > 0; n++ : n counts the rounds that are left.
     A failing fetch is skipped; only a model-side failure (fuel, panic) is propagated. *)
  Fixpoint import_loop (n : nat) (queue : list dependency) (imported : list dkey) (m : list dependency)
    : res (list dependency) :=
    match n with
    | O => Ok m
    | S n' =>
        match queue with
        | [] => Ok m
        | d :: q =>
            let dk := dep_key d in
            if mem_key dk imported then import_loop n' q imported m
            else if negb (bytes_eqb (d_type (with_jar d)) s_pom) then import_loop n' q (dk :: imported) m
            else
              match get_mgmt (d_group d) (d_artifact d) (d_version d) with
              | Ok dm =>
                  let '(m', imps) := add_dep_management dm m [] in
                  import_loop n' (imps ++ q) (dk :: imported) m'
              | Err _ => import_loop n' q (dk :: imported) m
              | Panic x => Panic x
              | OutOfFuel => OutOfFuel
              end
        end
    end.

  (* version, scope and exclusions are copied from the managed entry only when empty *)
  Definition fill_in (m : list dependency) (d : dependency) : dependency :=
    match find_key (dep_key d) m with
    | None => d
    | Some dm =>
        mkDep (d_group d) (d_artifact d)
              (if is_empty (d_version d) then d_version dm else d_version d)
              (d_type d) (d_classifier d)
              (if is_empty (d_scope d) then d_scope dm else d_scope d)
              (d_optional d)
              (match d_excl d with [] => d_excl dm | _ => d_excl d end)
    end.

  Definition process_dependencies (p : project) : res (list dependency * list dependency) :=
    let deps := dedupe_into [] (p_deps p) in
    let '(m0, imports) := add_dep_management (p_mgmt p) [] [] in
    m <- import_loop max_imports imports [] m0 ;;
    Ok (map (fill_in m) deps, m).
End Process.

(* ---- the documented pipeline *)
Definition pkey := (bytes * bytes * bytes)%type.
Definition pkey_eqb (a b : pkey) : bool :=
  let '(g1, a1, v1) := a in let '(g2, a2, v2) := b in
  bytes_eqb g1 g2 && bytes_eqb a1 a2 && bytes_eqb v1 v2.
Fixpoint mem_pkey (k : pkey) (l : list pkey) : bool :=
  match l with [] => false | x :: l' => pkey_eqb k x || mem_pkey k l' end.

(* The key under which a stored POM is found: what its file declares, group and version
   falling back to the parent element (harness convention, the same on the Go side). *)
Definition declared_key (p : project) : pkey :=
  (merge_string (p_group p) (par_group p), p_artifact p, merge_string (p_version p) (par_version p)).

Fixpoint fetch (repo : list project) (k : pkey) : res project :=
  match repo with
  | [] => Err E_fetch
  | p :: repo' => if pkey_eqb k (declared_key p) then Ok p else fetch repo' k
  end.

Section Pipeline.
  Variable jdk_matches : bytes -> bytes -> res bool.
  Variable jdk : bytes.
  Variable os : os_t.
  Variable repo : list project.

  (* mergeParents(current, start, result): k rounds are left (MaxParent - start); chk is
     the test n > 0 of the current round. *)
  Fixpoint merge_parents (k : nat) (chk : bool) (current : pkey) (visited : list pkey) (result : project)
    : res project :=
    match k with
    | O => interpolate result
    | S k' =>
        let '(g, a, v) := current in
        if is_empty g || is_empty a || is_empty v then interpolate result
        else if mem_pkey current visited then Err E_cycle
        else
          proj <- fetch repo current ;;
          if chk && negb (bytes_eqb (p_packaging proj) s_pom) then Err E_packaging
          else
            proj' <- merge_profiles jdk_matches jdk os proj ;;
            merge_parents k' true (par_group proj', par_artifact proj', par_version proj')
                          (current :: visited) (merge_parent result proj')
    end.

  Definition import_mgmt (g a v : bytes) : res (list dependency) :=
    r <- merge_parents max_parent false (g, a, v) [] empty_project ;;
    Ok (p_mgmt r).

  (* root.MergeProfiles; mergeParents(root.Parent, 1, &root); root.ProcessDependencies(...) *)
  Definition effective (root : project) : res (list dependency * list dependency) :=
    r0 <- merge_profiles jdk_matches jdk os root ;;
    r1 <- merge_parents (pred max_parent) true (par_group r0, par_artifact r0, par_version r0) [] r0 ;;
    process_dependencies import_mgmt r1.
End Pipeline.

(* ---- the driver of util/resolve/maven.go: APIClient.Requirements for a Maven version
   (mavenRequirements, fetchMavenParents).  Differences from the example program: default
   profiles only (no JDK, no OS), no packaging test, MaxMavenParent rounds counted from the
   first parent, every fetched project carries the key it was REQUESTED under
   (mavenRequirementsToProject), and an import starts from a project that already has the
   key of the import. *)
Section ResolveDriver.
  Variable jdk_matches : bytes -> bytes -> res bool.
  Variable repo : list project.

  Definition blank_os : os_t := mkOS [] [] [] [].

  Definition with_key (p : project) (k : pkey) : project :=
    let '(g, a, v) := k in
    mkProject g a v (par_group p) (par_artifact p) (par_version p) (p_packaging p)
              (p_props p) (p_deps p) (p_mgmt p) (p_profiles p).

  Fixpoint fetch_parents (k : nat) (current : pkey) (visited : list pkey) (result : project) : res project :=
    match k with
    | O => interpolate result
    | S k' =>
        let '(g, a, v) := current in
        if is_empty g || is_empty a || is_empty v then interpolate result
        else if mem_pkey current visited then Err E_cycle
        else
          proj <- fetch repo current ;;
          proj' <- merge_profiles jdk_matches [] blank_os (with_key proj current) ;;
          fetch_parents k' (par_group proj', par_artifact proj', par_version proj')
                        (current :: visited) (merge_parent result proj')
    end.

  Definition import_mgmt_resolve (g a v : bytes) : res (list dependency) :=
    r <- fetch_parents max_maven_parent (g, a, v) [] (mkProject g a v [] [] [] [] [] [] [] []) ;;
    Ok (p_mgmt r).

  Definition effective_resolve (root : project) : res (list dependency * list dependency) :=
    r0 <- merge_profiles jdk_matches [] blank_os (with_key root (declared_key root)) ;;
    r1 <- fetch_parents max_maven_parent (par_group r0, par_artifact r0, par_version r0) [] r0 ;;
    process_dependencies import_mgmt_resolve r1.
End ResolveDriver.

(* resolve.MavenDepType and Dependency.ExclusionsString: what a dependency becomes as a requirement *)
Definition s_test : bytes := [116;101;115;116].
Definition s_compile : bytes := [99;111;109;112;105;108;101].
Definition has_pipe (s : bytes) : bool := existsb (fun c => c =? 124) s.

Fixpoint exclusions_string (first : bool) (l : list (bytes * bytes)) : bytes :=
  match l with
  | [] => []
  | (g, a) :: l' =>
      if has_pipe g || has_pipe a then exclusions_string first l'
      else (if first then [] else [124]) ++ g ++ [58] ++ a ++ exclusions_string false l'
  end.

Record requirement := mkReq {
  rq_name : bytes; rq_version : bytes; rq_opt : bool; rq_test : bool; rq_scope : bytes;
  rq_type : bytes; rq_classifier : bytes; rq_has_excl : bool; rq_excl : bytes }.

Definition requirement_of (d : dependency) : requirement :=
  let test := bytes_eqb (d_scope d) s_test in
  mkReq (d_group d ++ [58] ++ d_artifact d) (d_version d)
        (bytes_eqb (d_optional d) s_true) test
        (if test then [] else if is_empty (d_scope d) || bytes_eqb (d_scope d) s_compile then [] else d_scope d)
        (if is_empty (d_type d) || bytes_eqb (d_type d) s_jar then [] else d_type d)
        (d_classifier d)
        (match d_excl d with [] => false | _ => true end)
        (exclusions_string true (d_excl d)).

(* The order of the steps, to be compared with what the translator reads from the sources. *)
Definition model_order_mergeParents : list bytes :=
  [[77;101;114;103;101;80;114;111;102;105;108;101;115];    (* MergeProfiles *)
   [77;101;114;103;101;80;97;114;101;110;116];             (* MergeParent *)
   [73;110;116;101;114;112;111;108;97;116;101]].           (* Interpolate *)
