(* Lemmas about the interpolation model: the scanner, termination with the explicit bound,
   absence of panics and errors, unresolved placeholders stay verbatim. *)
From Coq Require Import Lia.
From DepsDev Require Import Lib.Base Maven.Interp.

Lemma bytes_eqb_eq : forall a b, bytes_eqb a b = true <-> a = b.
Proof.
  induction a as [|x a IH]; destruct b as [|y b]; simpl; split; intro H; try reflexivity; try discriminate.
  - apply andb_prop in H. destruct H as [H1 H2]. apply N.eqb_eq in H1. apply IH in H2. subst. reflexivity.
  - inversion H; subst. rewrite N.eqb_refl. simpl. apply IH. reflexivity.
Qed.

Lemma bytes_eqb_refl : forall a, bytes_eqb a a = true.
Proof. intro a. apply bytes_eqb_eq. reflexivity. Qed.

Lemma mem_bytes_In : forall k l, mem_bytes k l = true <-> In k l.
Proof.
  induction l as [|x l IH]; simpl.
  - split; [discriminate | tauto].
  - rewrite orb_true_iff, IH, bytes_eqb_eq. split; intros [H|H]; auto.
Qed.

Lemma mem_bytes_not_In : forall k l, mem_bytes k l = false -> ~ In k l.
Proof. intros k l H HI. apply mem_bytes_In in HI. congruence. Qed.

Lemma lookup_In : forall k d v, lookup k d = Some v -> In k (map fst d).
Proof.
  induction d as [|[k' v'] d IH]; simpl; intros v H; [discriminate|].
  destruct (bytes_eqb k k') eqn:E.
  - left. symmetry. apply bytes_eqb_eq. exact E.
  - right. eapply IH; eauto.
Qed.

(* ---- the scanner *)
Lemma has_prefix_app : forall p s, has_prefix p s = true -> s = p ++ skipn (length p) s.
Proof.
  induction p as [|x p IH]; intros s H; simpl in *; [reflexivity|].
  destruct s as [|y s]; [discriminate|].
  apply andb_prop in H. destruct H as [H1 H2]. apply N.eqb_eq in H1. subst. f_equal. apply IH. exact H2.
Qed.

Lemma split_open_spec : forall s pre at_, split_open s = Some (pre, at_) ->
  s = pre ++ at_ /\ has_prefix s_open at_ = true.
Proof.
  induction s as [|c s IH]; intros pre at_ H; [discriminate|].
  cbn [split_open] in H.
  destruct (has_prefix s_open (c :: s)) eqn:E.
  - inversion H; subst. split; [reflexivity | exact E].
  - destruct (split_open s) as [[p r]|] eqn:E2; [|discriminate].
    inversion H; subst. destruct (IH p at_ eq_refl) as [H1 H2]. split; [simpl; f_equal; exact H1 | exact H2].
Qed.

Lemma split_close_spec : forall s k r, split_close s = Some (k, r) -> s = k ++ c_close :: r.
Proof.
  induction s as [|c s IH]; intros k r H; [discriminate|].
  cbn [split_close] in H.
  destruct (c =? c_close) eqn:E.
  - inversion H; subst. apply N.eqb_eq in E. subst. reflexivity.
  - destruct (split_close s) as [[k' r']|] eqn:E2; [|discriminate].
    inversion H; subst. simpl. f_equal. apply IH. reflexivity.
Qed.

(* the three parts and the placeholder text make up the scanned string *)
Lemma find_placeholder_spec : forall s pre key rest,
  find_placeholder s = Some (pre, key, rest) -> s = pre ++ whole key ++ rest.
Proof.
  intros s pre key rest H. unfold find_placeholder in H.
  destruct (split_open s) as [[p at_]|] eqn:E; [|discriminate].
  destruct (split_close (skipn 2 at_)) as [[k r]|] eqn:E2; [|discriminate].
  inversion H; subst. apply split_open_spec in E. destruct E as [E1 E3].
  apply split_close_spec in E2. apply has_prefix_app in E3. simpl length in E3.
  rewrite E1. f_equal. rewrite E3 at 1. unfold whole. rewrite <- app_assoc. f_equal. rewrite E2.
  rewrite <- app_assoc. reflexivity.
Qed.

Lemma find_placeholder_shorter : forall s pre key rest,
  find_placeholder s = Some (pre, key, rest) -> (length rest < length s)%nat.
Proof.
  intros s pre key rest H. apply find_placeholder_spec in H. rewrite H.
  unfold whole. rewrite !app_length. simpl. lia.
Qed.

(* a text without a placeholder is returned as it is *)
Lemma interp_no_placeholder : forall f d rs s,
  find_placeholder s = None -> interp (S f) d rs s = Ok (s, true).
Proof. intros f d rs s H. cbn [interp interp_loop]. rewrite H. reflexivity. Qed.

(* ---- no panic, no error *)
Definition benign {A} (r : res A) : Prop :=
  match r with Ok _ => True | OutOfFuel => True | _ => False end.

Lemma interp_loop_benign : forall rec d rs,
  (forall l v, benign (rec l v)) ->
  forall n s, benign (interp_loop rec d rs n s).
Proof.
  intros rec d rs Hrec. induction n as [|n IH]; intro s; cbn [interp_loop]; [exact I|].
  destruct (find_placeholder s) as [[[pre key] rest]|]; [|exact I].
  destruct (mem_bytes key rs); [exact I|].
  destruct (lookup key d) as [v|].
  - pose proof (Hrec (key :: rs) v) as H1. destruct (rec (key :: rs) v); simpl in *; try exact I; try contradiction.
    pose proof (IH rest) as H2. destruct (interp_loop rec d rs n rest); simpl in *; try exact I; contradiction.
  - pose proof (IH rest) as H2. destruct (interp_loop rec d rs n rest); simpl in *; try exact I; contradiction.
Qed.

Lemma interp_benign : forall f d rs s, benign (interp f d rs s).
Proof.
  induction f as [|f IH]; intros d rs s; cbn [interp]; [exact I|].
  apply interp_loop_benign. intros l v. apply IH.
Qed.

Lemma interp_no_panic_lemma : forall f d rs s p, interp f d rs s <> Panic p.
Proof. intros f d rs s p H. pose proof (interp_benign f d rs s) as B. rewrite H in B. exact B. Qed.

Lemma interp_no_err_lemma : forall f d rs s e, interp f d rs s <> Err e.
Proof. intros f d rs s e H. pose proof (interp_benign f d rs s) as B. rewrite H in B. exact B. Qed.

(* ---- termination *)
Lemma interp_loop_fuel : forall rec d rs,
  (forall key v, lookup key d = Some v -> mem_bytes key rs = false -> rec (key :: rs) v <> OutOfFuel) ->
  forall n s, (length s < n)%nat -> interp_loop rec d rs n s <> OutOfFuel.
Proof.
  intros rec d rs Hrec. induction n as [|n IH]; intros s Hn; [lia|].
  cbn [interp_loop].
  destruct (find_placeholder s) as [[[pre key] rest]|] eqn:E; [|discriminate].
  apply find_placeholder_shorter in E.
  destruct (mem_bytes key rs) eqn:M; [discriminate|].
  assert (Hr : interp_loop rec d rs n rest <> OutOfFuel) by (apply IH; lia).
  destruct (lookup key d) as [v|] eqn:L.
  - pose proof (Hrec key v L M) as H1.
    destruct (rec (key :: rs) v); simpl; try discriminate; try contradiction.
    destruct (interp_loop rec d rs n rest); simpl; try discriminate; contradiction.
  - destruct (interp_loop rec d rs n rest); simpl; try discriminate; contradiction.
Qed.

(* The keys being resolved are pairwise different keys of the dictionary, so there are at most
   as many as the dictionary has entries; every nested call adds one. *)
Lemma interp_fuel : forall f d rs s,
  NoDup rs -> incl rs (map fst d) -> (length d < f + length rs)%nat ->
  interp f d rs s <> OutOfFuel.
Proof.
  induction f as [|f IH]; intros d rs s ND INC Hlen.
  - exfalso. pose proof (NoDup_incl_length ND INC) as H. rewrite map_length in H. simpl in Hlen. lia.
  - cbn [interp]. apply interp_loop_fuel; [|lia].
    intros key v L M. apply IH.
    + constructor; [apply mem_bytes_not_In; exact M | exact ND].
    + intros x [Hx|Hx]; [subst; eapply lookup_In; eauto | apply INC; exact Hx].
    + simpl. lia.
Qed.

Lemma interp_terminates : forall d s, interp (interp_bound d) d [] s <> OutOfFuel.
Proof.
  intros d s. apply interp_fuel; [constructor | intros x [] | unfold interp_bound; simpl; lia].
Qed.

(* more fuel than the bound changes nothing: the result is a value *)
Lemma interp_total : forall d s, exists r ok, interpolate_string d s = Ok (r, ok).
Proof.
  intros d s. unfold interpolate_string.
  pose proof (interp_terminates d s) as T. pose proof (interp_benign (interp_bound d) d [] s) as B.
  destruct (interp (interp_bound d) d [] s) as [[r ok]| | |]; simpl in B; try contradiction.
  exists r, ok. reflexivity.
Qed.

(* ---- unresolved placeholders are left in place *)
Lemma interp_absent : forall f d rs s pre key rest out ok,
  find_placeholder s = Some (pre, key, rest) ->
  lookup key d = None ->
  interp (S f) d rs s = Ok (out, ok) ->
  ok = false /\ exists t, out = pre ++ whole key ++ t.
Proof.
  intros f d rs s pre key rest out ok F L H.
  cbn [interp interp_loop] in H. rewrite F in H.
  destruct (mem_bytes key rs).
  - inversion H; subst. split; [reflexivity | exists rest; reflexivity].
  - rewrite L in H.
    destruct (interp_loop (interp f d) d rs (length s) rest) as [[t o]| | |]; simpl in H; try discriminate.
    inversion H; subst. split; [reflexivity | exists t; reflexivity].
Qed.

Lemma interp_cycle : forall f d rs s pre key rest,
  find_placeholder s = Some (pre, key, rest) ->
  mem_bytes key rs = true ->
  interp (S f) d rs s = Ok (s, false).
Proof.
  intros f d rs s pre key rest F M.
  cbn [interp interp_loop]. rewrite F, M. rewrite <- (find_placeholder_spec _ _ _ _ F). reflexivity.
Qed.

(* A key whose own value mentions it first: the value comes back verbatim, flagged unresolved. *)
Lemma interp_S : forall f d rs s,
  interp (S f) d rs s = interp_loop (interp f d) d rs (S (length s)) s.
Proof. reflexivity. Qed.

Lemma interp_loop_S : forall rec d rs n s,
  interp_loop rec d rs (S n) s =
  match find_placeholder s with
  | None => Ok (s, true)
  | Some (pre, key, rest) =>
      if mem_bytes key rs then Ok (pre ++ whole key ++ rest, false)
      else match lookup key d with
           | Some v => r1 <- rec (key :: rs) v ;; r2 <- interp_loop rec d rs n rest ;;
                       Ok (pre ++ fst r1 ++ fst r2, snd r1 && snd r2)
           | None => r2 <- interp_loop rec d rs n rest ;; Ok (pre ++ whole key ++ fst r2, false)
           end
  end.
Proof. reflexivity. Qed.

Lemma interp_self_reference : forall f d k v pre rest,
  find_placeholder (whole k) = Some ([], k, []) ->
  lookup k d = Some v ->
  find_placeholder v = Some (pre, k, rest) ->
  interp (S (S f)) d [] (whole k) = Ok (v, false).
Proof.
  intros f d k v pre rest F L Fv.
  assert (Hv : interp (S f) d [k] v = Ok (v, false)).
  { eapply interp_cycle; eauto. simpl. rewrite bytes_eqb_refl. reflexivity. }
  rewrite interp_S, interp_loop_S, F. cbn [mem_bytes]. rewrite L, Hv.
  assert (HL : length (whole k) = S (S (S (length k)))).
  { unfold whole. simpl. rewrite app_length. simpl. lia. }
  rewrite HL, interp_loop_S. simpl. rewrite app_nil_r. reflexivity.
Qed.
