(* Totality of the whole POM pipeline model: every stage returns a value or an error, never a
   panic, and never runs out of fuel - for ALL projects, property tables, repositories (parent and
   BOM lookups) and settings.

   Why the Go loops terminate, as the model makes visible:
   - interpolating: the scan consumes the string; nested resolution adds a key to the resolving
     set, which holds pairwise different keys of the dictionary (Interp_proofs.interp_fuel), so the
     depth is at most the number of entries; the model supplies exactly that fuel itself
     (interp_bound), there is no external fuel to choose;
   - the import loop of ProcessDependencies: [import_loop] recurses structurally on the number of
     rounds that are left, MaxImports at the start (for ; n < MaxImports ...), whatever the lookups
     return, cyclic imports included; hitting the cap ends the loop, it is not an error;
   - mergeParents: [merge_parents] recurses structurally on the rounds that are left, MaxParent
     (MaxMavenParent in util/resolve) at the start; a repeated parent is an error before that.
   Both limits come from Gen/PomTables.v (regenerated from the sources on every run); the lemmas
   below hold for every value of them.

   The only thing taken from outside is the JDK clause of Profile.activated (the Maven version
   constraint code, a Section variable of the model): the theorems assume that IT returns a
   value or an error.  That is the version-constraint part of C04. *)
From Coq Require Import Lia.
From DepsDev Require Import Lib.Base Gen.PomTables Maven.Pom Maven.Interp Maven.Interp_proofs Maven.Project.

(* a value or an error *)
Definition settled {A} (r : res A) : Prop :=
  match r with Ok _ => True | Err _ => True | Panic _ => False | OutOfFuel => False end.

Definition returns {A} (r : res A) : Prop := exists a, r = Ok a.

Lemma returns_settled : forall {A} (r : res A), returns r -> settled r.
Proof. intros A r [a ->]. exact I. Qed.

Lemma bind_returns : forall {A B} (r : res A) (f : A -> res B),
  returns r -> (forall a, returns (f a)) -> returns (bind r f).
Proof. intros A B r f [a ->] H. simpl. apply H. Qed.

Lemma bind_settled : forall {A B} (r : res A) (f : A -> res B),
  settled r -> (forall a, settled (f a)) -> settled (bind r f).
Proof. intros A B r f H1 H2. destruct r; simpl in *; try contradiction; auto. Qed.

(* ---- Project.Interpolate *)
Lemma interpolate_string_returns : forall d s, returns (interpolate_string d s).
Proof. intros d s. destruct (interp_total d s) as [r [ok H]]. exists (r, ok). exact H. Qed.

Lemma interp_dep_returns : forall dc d, returns (interp_dep dc d).
Proof.
  intros dc d. unfold interp_dep.
  repeat (apply bind_returns; [apply interpolate_string_returns | intro]).
  eexists. reflexivity.
Qed.

Lemma interp_deps_returns : forall dc l, returns (interp_deps dc l).
Proof.
  intros dc. induction l as [|d l IH]; [eexists; reflexivity|].
  cbn [interp_deps]. apply bind_returns; [exact IH | intro rest].
  destruct (is_empty (d_group d) || is_empty (d_artifact d)); [eexists; reflexivity|].
  apply bind_returns; [apply interp_dep_returns | intro r; eexists; reflexivity].
Qed.

(* Project.Interpolate never fails in the model (its error result is always nil in Go) *)
Lemma interpolate_returns : forall p, returns (interpolate p).
Proof.
  intro p. unfold interpolate.
  apply bind_returns; [apply interpolate_string_returns | intro pk].
  apply bind_returns; [apply interp_deps_returns | intro deps].
  apply bind_returns; [apply interp_deps_returns | intro mgmt].
  eexists. reflexivity.
Qed.

(* ---- Profile.activated, MergeProfiles *)
Section Activation.
  Variable J : bytes -> bytes -> res bool.
  Hypothesis J_settled : forall spec jdk, settled (J spec jdk).

  (* total on every JDK string, OS setting and profile; a malformed range is the oracle's Err *)
  Lemma activated_settled : forall jdk os pf, settled (activated J jdk os pf).
  Proof.
    intros jdk os pf. unfold activated.
    destruct (is_empty jdk && os_blank os); [exact I|].
    destruct (is_empty (act_jdk (pf_act pf))).
    - simpl.
      destruct (os_blank (act_os (pf_act pf))); [|destruct (_ && _ && _ && _)];
        try exact I; destruct (is_empty (act_pname (pf_act pf))); try exact I;
        destruct (is_empty (act_pvalue (pf_act pf))); destruct (starts_bang _); exact I.
    - pose proof (J_settled (act_jdk (pf_act pf)) jdk) as H.
      destruct (J (act_jdk (pf_act pf)) jdk) as [b| | |]; simpl in *; try contradiction; try exact I.
      destruct b; simpl; [|exact I].
      destruct (os_blank (act_os (pf_act pf))); [|destruct (_ && _ && _ && _)];
        try exact I; destruct (is_empty (act_pname (pf_act pf))); try exact I;
        destruct (is_empty (act_pvalue (pf_act pf))); destruct (starts_bang _); exact I.
  Qed.

  (* a profile without a jdk clause never consults the oracle: always a boolean *)
  Lemma activated_without_jdk : forall (K : bytes -> bytes -> res bool) jdk os pf,
    act_jdk (pf_act pf) = [] -> returns (activated K jdk os pf).
  Proof.
    intros K jdk os pf H. unfold activated. rewrite H. simpl.
    destruct (is_empty jdk && os_blank os); [eexists; reflexivity|].
    destruct (os_blank (act_os (pf_act pf))); [|destruct (_ && _ && _ && _)];
      try (eexists; reflexivity); destruct (is_empty (act_pname (pf_act pf))); try (eexists; reflexivity);
      destruct (is_empty (act_pvalue (pf_act pf))); destruct (starts_bang _); eexists; reflexivity.
  Qed.

  Lemma select_profiles_returns : forall jdk os l, returns (select_profiles J jdk os l).
  Proof.
    intros jdk os. induction l as [|pf l IH]; [eexists; reflexivity|].
    cbn [select_profiles]. apply bind_returns; [exact IH | intros [[err act] def]].
    pose proof (activated_settled jdk os pf) as H.
    destruct (activated J jdk os pf) as [[|]| | |]; simpl in H; try contradiction; eexists; reflexivity.
  Qed.

  (* MergeProfiles: the merged project, or the activation error *)
  Lemma merge_profiles_settled : forall jdk os p, settled (merge_profiles J jdk os p).
  Proof.
    intros jdk os p. unfold merge_profiles.
    destruct (select_profiles_returns jdk os (p_profiles p)) as [[[err act] def] ->]. simpl.
    destruct err; exact I.
  Qed.

  (* ---- mergeParents: for every repository, start key, visited set and number of rounds *)
  Lemma fetch_settled : forall repo k, settled (fetch repo k).
  Proof. induction repo as [|p repo IH]; intro k; simpl; [exact I|]. destruct (pkey_eqb k (declared_key p)); [exact I | apply IH]. Qed.

  Lemma merge_parents_settled : forall jdk os repo k chk current visited result,
    settled (merge_parents J jdk os repo k chk current visited result).
  Proof.
    intros jdk os repo. induction k as [|k IH]; intros chk current visited result.
    - cbn [merge_parents]. apply returns_settled. apply interpolate_returns.
    - cbn [merge_parents]. destruct current as [[g a] v].
      destruct (is_empty g || is_empty a || is_empty v); [apply returns_settled; apply interpolate_returns|].
      destruct (mem_pkey (g, a, v) visited); [exact I|].
      apply bind_settled; [apply fetch_settled | intro proj].
      destruct (chk && negb (bytes_eqb (p_packaging proj) s_pom)); [exact I|].
      apply bind_settled; [apply merge_profiles_settled | intro proj']. apply IH.
  Qed.

  Lemma import_mgmt_settled : forall jdk os repo g a v, settled (import_mgmt J jdk os repo g a v).
  Proof.
    intros. unfold import_mgmt. apply bind_settled; [apply merge_parents_settled | intro r; exact I].
  Qed.
End Activation.

(* ---- ProcessDependencies: for EVERY lookup function that returns a value or an error - cyclic
   imports, imports of itself, failing imports - and every cap *)
Section Process.
  Variable get : bytes -> bytes -> bytes -> res (list dependency).
  Hypothesis get_settled : forall g a v, settled (get g a v).

  Lemma import_loop_returns : forall n queue imported m, returns (import_loop get n queue imported m).
  Proof.
    induction n as [|n IH]; intros queue imported m; [eexists; reflexivity|].
    cbn [import_loop]. destruct queue as [|d q]; [eexists; reflexivity|].
    destruct (mem_key (dep_key d) imported); [apply IH|].
    destruct (negb (bytes_eqb (d_type (with_jar d)) s_pom)); [apply IH|].
    pose proof (get_settled (d_group d) (d_artifact d) (d_version d)) as H.
    destruct (get (d_group d) (d_artifact d) (d_version d)) as [dm| | |]; simpl in H; try contradiction.
    - destruct (add_dep_management dm m []) as [m' imps]. apply IH.
    - apply IH.
  Qed.

  (* ProcessDependencies has no error result: always the two lists *)
  Lemma process_dependencies_returns : forall p, returns (process_dependencies get p).
  Proof.
    intro p. unfold process_dependencies.
    destruct (add_dep_management (p_mgmt p) [] []) as [m0 imports].
    apply bind_returns; [apply import_loop_returns | intro m; eexists; reflexivity].
  Qed.
End Process.

(* the number of lookups the import loop makes is at most the cap: count them *)
Fixpoint import_lookups (get : bytes -> bytes -> bytes -> res (list dependency))
         (n : nat) (queue : list dependency) (imported : list dkey) (m : list dependency) : nat :=
  match n with
  | O => O
  | S n' =>
      match queue with
      | [] => O
      | d :: q =>
          if mem_key (dep_key d) imported then import_lookups get n' q imported m
          else if negb (bytes_eqb (d_type (with_jar d)) s_pom) then import_lookups get n' q (dep_key d :: imported) m
          else match get (d_group d) (d_artifact d) (d_version d) with
               | Ok dm => let '(m', imps) := add_dep_management dm m [] in
                          S (import_lookups get n' (imps ++ q) (dep_key d :: imported) m')
               | _ => S (import_lookups get n' q (dep_key d :: imported) m)
               end
      end
  end.

Lemma import_lookups_bounded : forall get n queue imported m, (import_lookups get n queue imported m <= n)%nat.
Proof.
  intros get. induction n as [|n IH]; intros queue imported m; [simpl; lia|].
  cbn [import_lookups]. destruct queue as [|d q]; [lia|].
  destruct (mem_key (dep_key d) imported); [specialize (IH q imported m); lia|].
  destruct (negb (bytes_eqb (d_type (with_jar d)) s_pom)); [specialize (IH q (dep_key d :: imported) m); lia|].
  destruct (get (d_group d) (d_artifact d) (d_version d)) as [dm| | |].
  - destruct (add_dep_management dm m []) as [m' imps]. specialize (IH (imps ++ q) (dep_key d :: imported) m'). lia.
  - specialize (IH q (dep_key d :: imported) m). lia.
  - specialize (IH q (dep_key d :: imported) m). lia.
  - specialize (IH q (dep_key d :: imported) m). lia.
Qed.

(* ---- the whole documented pipeline *)
Theorem pipeline_total : forall (J : bytes -> bytes -> res bool) jdk os repo root,
  (forall spec v, settled (J spec v)) ->
  settled (effective J jdk os repo root).
Proof.
  intros J jdk os repo root HJ. unfold effective.
  apply bind_settled; [apply merge_profiles_settled; exact HJ | intro r0].
  apply bind_settled; [apply merge_parents_settled; exact HJ | intro r1].
  apply returns_settled. apply process_dependencies_returns.
  intros g a v. apply import_mgmt_settled. exact HJ.
Qed.

(* a lineage whose profiles state no jdk condition needs no assumption at all *)
Fixpoint no_jdk_clause (l : list profile) : Prop :=
  match l with [] => True | pf :: l' => act_jdk (pf_act pf) = [] /\ no_jdk_clause l' end.

Lemma select_profiles_no_jdk : forall (K J : bytes -> bytes -> res bool) jdk os l,
  no_jdk_clause l -> select_profiles K jdk os l = select_profiles J jdk os l.
Proof.
  intros K J jdk os. induction l as [|pf l IH]; intro H; [reflexivity|].
  destruct H as [H1 H2]. cbn [select_profiles]. rewrite (IH H2).
  assert (E : activated K jdk os pf = activated J jdk os pf) by (unfold activated; rewrite H1; reflexivity).
  rewrite E. reflexivity.
Qed.

Lemma merge_profiles_no_jdk : forall (K J : bytes -> bytes -> res bool) jdk os p,
  no_jdk_clause (p_profiles p) -> merge_profiles K jdk os p = merge_profiles J jdk os p.
Proof. intros. unfold merge_profiles. rewrite (select_profiles_no_jdk K J); auto. Qed.

Lemma fetch_In : forall repo k p, fetch repo k = Ok p -> In p repo.
Proof.
  induction repo as [|q repo IH]; intros k p H; simpl in H; [discriminate|].
  destruct (pkey_eqb k (declared_key q)); [inversion H; left; reflexivity | right; eapply IH; eauto].
Qed.

Lemma merge_parents_no_jdk : forall (K J : bytes -> bytes -> res bool) jdk os repo,
  (forall p, In p repo -> no_jdk_clause (p_profiles p)) ->
  forall k chk current visited result,
    merge_parents K jdk os repo k chk current visited result = merge_parents J jdk os repo k chk current visited result.
Proof.
  intros K J jdk os repo Hrepo. induction k as [|k IH]; intros chk current visited result; [reflexivity|].
  cbn [merge_parents]. destruct current as [[g a] v].
  destruct (is_empty g || is_empty a || is_empty v); [reflexivity|].
  destruct (mem_pkey (g, a, v) visited); [reflexivity|].
  destruct (fetch repo (g, a, v)) as [proj| | |] eqn:F; cbn [bind]; try reflexivity.
  destruct (chk && negb (bytes_eqb (p_packaging proj) s_pom)); [reflexivity|].
  rewrite (merge_profiles_no_jdk K J) by (apply Hrepo; eapply fetch_In; eauto).
  destruct (merge_profiles J jdk os proj); cbn [bind]; try reflexivity. apply IH.
Qed.

Lemma import_loop_ext : forall get1 get2, (forall g a v, get1 g a v = get2 g a v) ->
  forall n queue imported m, import_loop get1 n queue imported m = import_loop get2 n queue imported m.
Proof.
  intros get1 get2 H. induction n as [|n IH]; intros queue imported m; [reflexivity|].
  cbn [import_loop]. destruct queue as [|d q]; [reflexivity|].
  destruct (mem_key (dep_key d) imported); [apply IH|].
  destruct (negb (bytes_eqb (d_type (with_jar d)) s_pom)); [apply IH|].
  rewrite H. destruct (get2 (d_group d) (d_artifact d) (d_version d)) as [dm| | |]; try reflexivity; try apply IH.
  destruct (add_dep_management dm m []). apply IH.
Qed.

(* the pipeline with its three limits as parameters (the proofs must not compute with the numbers) *)
Definition process_with (get : bytes -> bytes -> bytes -> res (list dependency)) (n : nat) (p : project)
  : res (list dependency * list dependency) :=
  let deps := dedupe_into [] (p_deps p) in
  let '(m0, imports) := add_dep_management (p_mgmt p) [] [] in
  m <- import_loop get n imports [] m0 ;;
  Ok (map (fill_in m) deps, m).

Definition effective_with (J : bytes -> bytes -> res bool) jdk os repo (k1 k2 n : nat) (root : project) :=
  r0 <- merge_profiles J jdk os root ;;
  r1 <- merge_parents J jdk os repo k1 true (par_group r0, par_artifact r0, par_version r0) [] r0 ;;
  process_with (fun g a v => r <- merge_parents J jdk os repo k2 false (g, a, v) [] empty_project ;; Ok (p_mgmt r)) n r1.

Lemma effective_is_with : forall J jdk os repo root,
  effective J jdk os repo root = effective_with J jdk os repo (Nat.pred max_parent) max_parent max_imports root.
Proof. reflexivity. Qed.

Lemma effective_with_no_jdk : forall (K J : bytes -> bytes -> res bool) jdk os repo k1 k2 n root,
  no_jdk_clause (p_profiles root) -> (forall p, In p repo -> no_jdk_clause (p_profiles p)) ->
  effective_with K jdk os repo k1 k2 n root = effective_with J jdk os repo k1 k2 n root.
Proof.
  intros K J jdk os repo k1 k2 n root Hroot Hrepo. unfold effective_with.
  rewrite (merge_profiles_no_jdk K J) by exact Hroot.
  destruct (merge_profiles J jdk os root) as [r0| | |]; cbn [bind]; try reflexivity.
  rewrite (merge_parents_no_jdk K J) by exact Hrepo.
  destruct (merge_parents J jdk os repo k1 true (par_group r0, par_artifact r0, par_version r0) [] r0) as [r1| | |];
    cbn [bind]; try reflexivity.
  unfold process_with. destruct (add_dep_management (p_mgmt r1) [] []) as [m0 imports].
  erewrite import_loop_ext; [reflexivity|].
  intros g x v. cbn beta. rewrite (merge_parents_no_jdk K J) by exact Hrepo. reflexivity.
Qed.

(* no profile of the lineage states a jdk condition: the oracle is never consulted, the result does
   not depend on it, and the pipeline is total with no assumption whatever *)
Theorem pipeline_total_no_jdk : forall (K : bytes -> bytes -> res bool) jdk os repo root,
  no_jdk_clause (p_profiles root) -> (forall p, In p repo -> no_jdk_clause (p_profiles p)) ->
  settled (effective K jdk os repo root).
Proof.
  intros K jdk os repo root Hroot Hrepo.
  rewrite effective_is_with.
  rewrite (effective_with_no_jdk K (fun _ _ => Ok false)) by assumption.
  rewrite <- effective_is_with. apply pipeline_total. intros spec v. exact I.
Qed.
