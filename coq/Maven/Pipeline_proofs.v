(* The whole pipeline on concrete lineages: the witnesses of the known findings (model and
   specification disagree, as the Go code and Maven do) and two lineages on which they agree.
   Everything here is computation (vm_compute). *)
From DepsDev Require Import Lib.Base Gen.PomTables Maven.Pom Maven.Interp Maven.Project Maven.Witnesses.
From DepsDev Require Spec.MavenModelSpec.
Module S := Spec.MavenModelSpec.

Definition lists := (list dependency * list dependency)%type.

(* the model and the specification both produce lists, and they are different *)
Definition disagree (J : bytes -> bytes -> res bool) (repo : list project) (root : project) : Prop :=
  exists r r' : lists,
    effective J w_jdk w_os repo root = Ok r /\ S.effective J w_jdk w_os repo root = S.SOk r' /\ r <> r'.

Definition agree (J : bytes -> bytes -> res bool) (repo : list project) (root : project) : Prop :=
  exists r : lists,
    effective J w_jdk w_os repo root = Ok r /\ S.effective J w_jdk w_os repo root = S.SOk r /\ fst r <> [].

Ltac witness J repo root :=
  let m := eval vm_compute in (effective J w_jdk w_os repo root) in
  let s := eval vm_compute in (S.effective J w_jdk w_os repo root) in
  match m with
  | Ok ?r => match s with
             | S.SOk ?r' => exists r, r'; split; [vm_compute; reflexivity | split; [vm_compute; reflexivity | discriminate]]
             end
  end.

Lemma w_dup_disagree : disagree w_dup_jdk_table w_dup_repo w_dup_root.
Proof. unfold disagree. witness w_dup_jdk_table w_dup_repo w_dup_root. Qed.

Lemma w_profile_disagree : disagree w_profile_jdk_table w_profile_repo w_profile_root.
Proof. unfold disagree. witness w_profile_jdk_table w_profile_repo w_profile_root. Qed.

Lemma w_bom2_disagree : disagree w_bom2_jdk_table w_bom2_repo w_bom2_root.
Proof. unfold disagree. witness w_bom2_jdk_table w_bom2_repo w_bom2_root. Qed.

Lemma w_bomparent_disagree : disagree w_bomparent_jdk_table w_bomparent_repo w_bomparent_root.
Proof. unfold disagree. witness w_bomparent_jdk_table w_bomparent_repo w_bomparent_root. Qed.

Lemma w_excl_disagree : disagree w_excl_jdk_table w_excl_repo w_excl_root.
Proof. unfold disagree. witness w_excl_jdk_table w_excl_repo w_excl_root. Qed.

Lemma w_jdk_disagree : disagree w_jdk_jdk_table w_jdk_repo w_jdk_root.
Proof. unfold disagree. witness w_jdk_jdk_table w_jdk_repo w_jdk_root. Qed.

(* F-C15-9: the model (as the Go code) fails where the specification gives lists *)
Lemma w_jdkneg_rejected : exists e (r : lists),
  effective w_jdkneg_jdk_table w_jdk w_os w_jdkneg_repo w_jdkneg_root = Err e /\
  S.effective w_jdkneg_jdk_table w_jdk w_os w_jdkneg_repo w_jdkneg_root = S.SOk r /\ length (fst r) = 2%nat.
Proof.
  let s := eval vm_compute in (S.effective w_jdkneg_jdk_table w_jdk w_os w_jdkneg_repo w_jdkneg_root) in
  match s with S.SOk ?r => exists E_profile, r; split; [vm_compute; reflexivity | split; vm_compute; reflexivity] end.
Qed.

Lemma jdk_condition_examples :
  S.jdk_expect [49;49] [49;49;46;48;46;56] = Some true /\
  S.jdk_expect [49;49;46;48;46;55] [49;49;46;48;46;56] = Some false /\
  S.jdk_expect [33;49;46;56] [49;49;46;48;46;56] = Some true /\
  S.jdk_expect [91;49;49;44;49;55;41] [49;55;46;48;46;50] = Some false /\
  S.jdk_expect [40;44;49;49;46;48;46;56;93] [49;49;46;48;46;56] = Some true /\
  S.jdk_expect [40;44;49;46;56;93] [49;46;56;46;48;95;50;57;50] = None.
Proof. vm_compute. repeat split; reflexivity. Qed.

(* the unrestricted refinement is false *)
Lemma full_refuted :
  ~ (forall (J : bytes -> bytes -> res bool) jdk os repo root r,
       S.effective J jdk os repo root = S.SOk r -> effective J jdk os repo root = Ok r).
Proof.
  intro Full. destruct w_dup_disagree as [r [r' [Hm [Hs Hne]]]].
  specialize (Full _ _ _ _ _ r' Hs). rewrite Hm in Full. inversion Full. contradiction.
Qed.

Ltac agreeing J repo root :=
  let m := eval vm_compute in (effective J w_jdk w_os repo root) in
  match m with
  | Ok ?r => exists r; split; [vm_compute; reflexivity | split; [vm_compute; reflexivity | discriminate]]
  end.

(* inheritance, a chained property overridden by an active profile, built-ins, management *)
Lemma w_ex_inherit_agree : agree w_ex_inherit_jdk_table w_ex_inherit_repo w_ex_inherit_root.
Proof. unfold agree. agreeing w_ex_inherit_jdk_table w_ex_inherit_repo w_ex_inherit_root. Qed.

(* a BOM with a parent and a nested import, the import version coming from a property *)
Lemma w_ex_import_agree : agree w_ex_import_jdk_table w_ex_import_repo w_ex_import_root.
Proof. unfold agree. agreeing w_ex_import_jdk_table w_ex_import_repo w_ex_import_root. Qed.

(* a property defined with an empty value overrides the parent's and makes the classifier vanish *)
Lemma w_ex_empty_agree : agree w_ex_empty_jdk_table w_ex_empty_repo w_ex_empty_root.
Proof. unfold agree. agreeing w_ex_empty_jdk_table w_ex_empty_repo w_ex_empty_root. Qed.

(* R10 on both sides: a name defined with the empty value is defined (the flag stays true) *)
Lemma empty_value_is_defined :
  interpolate_string [([99;108], [])] [50;36;123;99;108;125;45] = Ok ([50;45], true) /\
  S.resolve [([99;108], [])] [50;36;123;99;108;125;45] = ([50;45], true) /\
  interpolate_string [] [50;36;123;99;108;125;45] = Ok ([50;36;123;99;108;125;45], false).
Proof. vm_compute. repeat split; reflexivity. Qed.

(* the order of the steps read from the sources is the order the model implements *)
Lemma documented_order :
  order_example_mergeParents = model_order_mergeParents /\
  order_resolve_fetchMavenParents = model_order_mergeParents.
Proof. split; reflexivity. Qed.

(* a cyclic table: a -> b -> a *)
Definition cyc_table : dict := [([97], [36;123;98;125]); ([98], [120;36;123;97;125;121])].
Lemma cyclic_example :
  interpolate_string cyc_table [112;36;123;97;125;113] = Ok ([112;120;36;123;97;125;121;113], false).
Proof. vm_compute. reflexivity. Qed.
