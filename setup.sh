#!/bin/sh
# MANIFEST.setup_cmd: build the framework from files on disk only (offline).
set -e
cd "$(dirname "$0")"
export GOFLAGS=-mod=mod GOPROXY=off GOSUMDB=off GOTOOLCHAIN=local
python3 - <<'PY'
import sys, os
sys.path.insert(0, "harness")
import lib
import glob, importlib
lib.build_go()
lib.regen_tables()
# property modules that generate their own Coq inputs (e.g. C17: API descriptors) expose setup()
for f in sorted(glob.glob("harness/props/C*.py")):
    mod = importlib.import_module("props." + os.path.basename(f)[:-3])
    if hasattr(mod, "setup"):
        mod.setup()
lib.coq_makefile()
ok, log = lib.coq_make([], timeout=7200)   # full .vo build of every file in _CoqProject
if not ok:
    sys.stdout.write(log[-5000:])
    sys.exit(1)
lib.build_model()
print("setup ok")
PY
