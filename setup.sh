#!/bin/sh
# MANIFEST.setup_cmd: build the framework from files on disk only (offline).
set -e
cd "$(dirname "$0")"
export GOFLAGS=-mod=mod GOPROXY=off GOSUMDB=off GOTOOLCHAIN=local
python3 - <<'PY'
import sys, os
sys.path.insert(0, "harness")
import lib
import glob, importlib
lib.build_go()
lib.regen_tables()
# property modules that generate their own Coq inputs (e.g. C17: API descriptors) expose setup()
for f in sorted(glob.glob("harness/props/C*.py")):
    mod = importlib.import_module("props." + os.path.basename(f)[:-3])
    if hasattr(mod, "setup"):
        mod.setup()
lib.coq_makefile()
ok, log = lib.coq_make([], timeout=7200)   # full .vo build of every file in _CoqProject
if not ok:
    sys.stdout.write(log[-5000:])
    sys.exit(1)
lib.build_model()
# Print Assumptions output of every property file, cached next to its .vo (see lib.prove); done here in
# parallel so that no check pays for re-running a heavy property file
import concurrent.futures, subprocess
props = sorted(glob.glob(os.path.join(lib.COQ, "Properties", "*.v")))
def assumptions(f):
    rel = os.path.relpath(f, lib.COQ)
    p = subprocess.run(["coqc", "-Q", ".", "DepsDev", "-w", "-notation-overridden", rel], cwd=lib.COQ,
                       stdout=subprocess.PIPE, stderr=subprocess.STDOUT, timeout=3600)
    if p.returncode == 0:
        open(f[:-2] + ".assumptions", "w").write(p.stdout.decode("utf-8", "replace"))
    return rel, p.returncode
with concurrent.futures.ThreadPoolExecutor(16) as ex:
    bad = [r for r, rc in ex.map(assumptions, props) if rc != 0]
if bad:
    print("property files failing:", bad)
    sys.exit(1)
print("setup ok")
PY
