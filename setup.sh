#!/bin/sh
# MANIFEST.setup_cmd: build the framework from files on disk only (offline).
set -e
cd "$(dirname "$0")"
export GOFLAGS=-mod=mod GOPROXY=off GOSUMDB=off GOTOOLCHAIN=local
python3 - <<'PY'
import sys, os
sys.path.insert(0, "harness")
import lib
lib.build_go()
lib.regen_tables()
ok, log = lib.coq_make([], timeout=7200)   # full .vo build of every file in _CoqProject
if not ok:
    sys.stdout.write(log[-5000:])
    sys.exit(1)
lib.build_model()
print("setup ok")
PY
